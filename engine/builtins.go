package main

import (
	"crypto/md5"
	"crypto/sha1"
	"encoding/hex"
	"go/token"
	"fmt"
	"go/types"
	"math"
	"strconv"
	"strings"

	"golang.org/x/tools/go/ssa"
)

func (ex *Exec) callBuiltin(b *ssa.Builtin, args []Value, site ssa.CallInstruction) Value {
	tc := ex.tc
	switch b.Name() {
	case "len":
		switch x := args[0].(type) {
		case *StrV:
			return tc.Const(BV(64), uint64(len(x.b)))
		case SliceV:
			return tc.Const(BV(64), uint64(x.len))
		case MapV:
			if x.m == nil {
				return tc.Const(BV(64), 0)
			}
			return tc.Const(BV(64), uint64(len(x.m.keys)))
		case ArrayV:
			return tc.Const(BV(64), uint64(len(x.e)))
		case PtrV:
			if x.c == nil {
				ex.nilDeref()
			}
			return tc.Const(BV(64), uint64(x.c.arrayLen()))
		case ChanV:
			return tc.Const(BV(64), 0)
		}
	case "cap":
		switch x := args[0].(type) {
		case SliceV:
			return tc.Const(BV(64), uint64(x.cap))
		case ArrayV:
			return tc.Const(BV(64), uint64(len(x.e)))
		case PtrV:
			return tc.Const(BV(64), uint64(x.c.arrayLen()))
		case ChanV:
			return tc.Const(BV(64), 0)
		}
	case "append":
		s := args[0].(SliceV)
		var add []Value
		var elemT types.Type
		if site != nil {
			elemT = site.Common().Args[0].Type().Underlying().(*types.Slice).Elem()
		}
		switch t := args[1].(type) {
		case SliceV:
			add = ex.sliceElems(t)
		case *StrV:
			add = make([]Value, len(t.b))
			for i, x := range t.b {
				add[i] = x
			}
		default:
			ex.inconclusive(fmt.Sprintf("append of %T", args[1]))
		}
		return ex.appendVals(s, add, elemT)
	case "copy":
		dst := args[0].(SliceV)
		var src []Value
		switch t := args[1].(type) {
		case SliceV:
			src = ex.sliceElems(t)
		case *StrV:
			src = make([]Value, len(t.b))
			for i, x := range t.b {
				src[i] = x
			}
		}
		n := len(src)
		if dst.len < n {
			n = dst.len
		}
		for i := 0; i < n; i++ {
			ex.storeCell(ex.kid(dst.arr, dst.off+i), src[i])
		}
		return tc.Const(BV(64), uint64(n))
	case "delete":
		ex.mapDelete(args[0], args[1])
		return nil
	case "close":
		if ch, ok := args[0].(ChanV); ok {
			if ex.closedChans == nil {
				ex.closedChans = map[int]bool{}
			}
			if ch.id == 0 {
				ex.goPanic("close of nil channel")
			}
			ex.closedChans[ch.id] = true
		}
		return nil
	case "panic":
		panic(&GoPanic{val: args[0], msg: "panic: " + ex.describePanic(args[0]) + ex.where()})
	case "recover":
		// recover is effective only when called directly by a deferred function
		f := ex.frame
		if f != nil && f.caller != nil && f.caller.panic_ != nil && !f.caller.panic_.recovered {
			gp := f.caller.panic_
			gp.recovered = true
			return gp.val
		}
		return IfaceV{}
	case "print", "println":
		return nil
	case "min", "max":
		r := args[0]
		sig := site.Common().Args[0].Type()
		for _, a := range args[1:] {
			var lt Value
			if b.Name() == "min" {
				lt = ex.binop(token.LSS, a, r, sig, sig)
			} else {
				lt = ex.binop(token.LSS, r, a, sig, sig)
			}
			switch rv := r.(type) {
			case *Term:
				r = tc.Ite(lt.(*Term), a.(*Term), rv)
			default:
				if ex.branch(lt.(*Term)) {
					r = a
				}
			}
		}
		return r
	case "clear":
		switch x := args[0].(type) {
		case MapV:
			if x.m != nil {
				ex.mapTrail(x.m)
				x.m.keys, x.m.vals = nil, nil
			}
		case SliceV:
			if x.len > 0 {
				z := ex.zero(x.arr.typ.Underlying().(*types.Array).Elem())
				for i := 0; i < x.len; i++ {
					ex.storeCell(ex.kid(x.arr, x.off+i), z)
				}
			}
		}
		return nil
	case "ssa:wrapnilchk":
		if p, ok := args[0].(PtrV); ok && p.c == nil && p.idx == nil {
			ex.nilDeref()
		}
		return args[0]
	}
	// unsafe builtins arrive as *ssa.Builtin too
	switch b.Name() {
	case "String": // unsafe.String(ptr, len)
		p := args[0].(PtrV)
		n := int(ex.concretize(args[1].(*Term), "unsafe.String len"))
		if n == 0 {
			return ex.emptyStr
		}
		if p.c == nil || p.c.parent == nil {
			ex.inconclusive("unsafe.String on non-array memory")
		}
		return &StrV{b: ex.sliceBytes(SliceV{arr: p.c.parent, off: p.c.idx, len: n, cap: n})}
	case "StringData":
		s := args[0].(*StrV)
		if len(s.b) == 0 {
			return PtrV{}
		}
		sl := ex.bytesToSlice(s.b, nil)
		return PtrV{c: ex.kid(sl.arr, 0)}
	case "SliceData":
		s := args[0].(SliceV)
		if s.arr == nil || s.cap == 0 {
			return PtrV{}
		}
		return PtrV{c: ex.kid(s.arr, s.off)}
	case "Slice":
		p := args[0].(PtrV)
		n := int(ex.concretize(args[1].(*Term), "unsafe.Slice len"))
		if p.c == nil {
			return SliceV{}
		}
		if p.c.parent == nil || !p.c.parent.isArray() {
			ex.inconclusive("unsafe.Slice on non-array memory")
		}
		return SliceV{arr: p.c.parent, off: p.c.idx, len: n, cap: n}
	case "Add":
		p := args[0].(PtrV)
		n := int(int64(ex.concretize(args[1].(*Term), "unsafe.Add")))
		if p.c == nil || p.c.parent == nil || !p.c.parent.isArray() {
			ex.inconclusive("unsafe.Add on non-array memory")
		}
		// only byte-granular arrays are supported
		return PtrV{c: ex.kid(p.c.parent, p.c.idx+n)}
	}
	ex.inconclusive("unsupported builtin " + b.Name())
	return nil
}

func (ex *Exec) appendVals(s SliceV, add []Value, elemT types.Type) SliceV {
	if len(add) == 0 {
		return s
	}
	need := s.len + len(add)
	if s.arr != nil && need <= s.cap && s.off+need <= s.arr.arrayLen() {
		for i, v := range add {
			ex.storeCell(ex.kid(s.arr, s.off+s.len+i), v)
		}
		return SliceV{arr: s.arr, off: s.off, len: need, cap: s.cap}
	}
	// grow: amortised doubling like the runtime (exact capacities are not part of Go's contract)
	nc := s.cap * 2
	if nc < need {
		nc = need
	}
	if nc > ex.h.cfg.MaxAlloc {
		ex.inconclusive("append exceeds allocation cap")
	}
	if elemT == nil {
		if s.arr == nil {
			ex.inconclusive("append to nil slice without element type")
		}
		elemT = s.arr.typ.Underlying().(*types.Array).Elem()
	}
	arr := ex.newArrayCell(elemT, nc)
	for i := 0; i < s.len; i++ {
		ex.storeCell(ex.kid(arr, i), ex.loadCell(ex.kid(s.arr, s.off+i)))
	}
	for i, v := range add {
		ex.storeCell(ex.kid(arr, s.len+i), v)
	}
	return SliceV{arr: arr, off: 0, len: need, cap: nc}
}

// ---------------------------------------------------------------------------
// intrinsics: functions answered by the engine instead of their bodies

type intrinsicFn func(ex *Exec, fn *ssa.Function, args []Value) (Value, bool)

func strOrBytes(ex *Exec, v Value) []*Term {
	switch x := v.(type) {
	case *StrV:
		return x.b
	case SliceV:
		return ex.sliceBytes(x)
	}
	ex.inconclusive(fmt.Sprintf("expected string or []byte, got %T", v))
	return nil
}

func (ex *Exec) intConst(n int) *Term { return ex.tc.Const(BV(64), uint64(int64(n))) }

func inIndexByte(ex *Exec, fn *ssa.Function, args []Value) (Value, bool) {
	s := strOrBytes(ex, args[0])
	c := args[1].(*Term)
	for i, b := range s {
		if ex.branch(ex.tc.Eq(b, c)) {
			return ex.intConst(i), true
		}
	}
	return ex.intConst(-1), true
}

func inLastIndexByte(ex *Exec, fn *ssa.Function, args []Value) (Value, bool) {
	s := strOrBytes(ex, args[0])
	c := args[1].(*Term)
	for i := len(s) - 1; i >= 0; i-- {
		if ex.branch(ex.tc.Eq(s[i], c)) {
			return ex.intConst(i), true
		}
	}
	return ex.intConst(-1), true
}

func inEqual(ex *Exec, fn *ssa.Function, args []Value) (Value, bool) {
	a, b := strOrBytes(ex, args[0]), strOrBytes(ex, args[1])
	return ex.strEq(&StrV{a}, &StrV{b}), true
}

func inCompare(ex *Exec, fn *ssa.Function, args []Value) (Value, bool) {
	a, b := &StrV{strOrBytes(ex, args[0])}, &StrV{strOrBytes(ex, args[1])}
	tc := ex.tc
	lt := ex.strLt(a, b, false)
	eq := ex.strEq(a, b)
	return tc.Ite(lt, tc.Const(BV(64), ^uint64(0)), tc.Ite(eq, tc.Const(BV(64), 0), tc.Const(BV(64), 1))), true
}

func inCount(ex *Exec, fn *ssa.Function, args []Value) (Value, bool) {
	s := strOrBytes(ex, args[0])
	c := args[1].(*Term)
	tc := ex.tc
	n := tc.Const(BV(64), 0)
	for _, b := range s {
		n = tc.BinBV(OAdd, n, tc.Ite(tc.Eq(b, c), tc.Const(BV(64), 1), tc.Const(BV(64), 0)))
	}
	return n, true
}

// inIndex: strings.Index / bytes.Index (first occurrence), forking per position.
func inIndex(ex *Exec, fn *ssa.Function, args []Value) (Value, bool) {
	s, sub := strOrBytes(ex, args[0]), strOrBytes(ex, args[1])
	for i := 0; i+len(sub) <= len(s); i++ {
		if ex.branch(ex.strEq(&StrV{s[i : i+len(sub)]}, &StrV{sub})) {
			return ex.intConst(i), true
		}
	}
	return ex.intConst(-1), true
}

func inLastIndex(ex *Exec, fn *ssa.Function, args []Value) (Value, bool) {
	s, sub := strOrBytes(ex, args[0]), strOrBytes(ex, args[1])
	for i := len(s) - len(sub); i >= 0; i-- {
		if ex.branch(ex.strEq(&StrV{s[i : i+len(sub)]}, &StrV{sub})) {
			return ex.intConst(i), true
		}
	}
	return ex.intConst(-1), true
}

func inContains(ex *Exec, fn *ssa.Function, args []Value) (Value, bool) {
	r, _ := inIndex(ex, fn, args)
	return ex.tc.Not(ex.tc.Eq(r.(*Term), ex.tc.Const(BV(64), ^uint64(0)))), true
}

func inHasPrefix(ex *Exec, fn *ssa.Function, args []Value) (Value, bool) {
	s, p := strOrBytes(ex, args[0]), strOrBytes(ex, args[1])
	if len(p) > len(s) {
		return ex.tc.False, true
	}
	return ex.strEq(&StrV{s[:len(p)]}, &StrV{p}), true
}

func inHasSuffix(ex *Exec, fn *ssa.Function, args []Value) (Value, bool) {
	s, p := strOrBytes(ex, args[0]), strOrBytes(ex, args[1])
	if len(p) > len(s) {
		return ex.tc.False, true
	}
	return ex.strEq(&StrV{s[len(s)-len(p):]}, &StrV{p}), true
}

func (ex *Exec) lowerByte(b *Term) *Term {
	tc := ex.tc
	isUp := tc.And(tc.CmpBV(OUle, tc.Const(BV(8), 'A'), b), tc.CmpBV(OUle, b, tc.Const(BV(8), 'Z')))
	return tc.Ite(isUp, tc.BinBV(OAdd, b, tc.Const(BV(8), 32)), b)
}

func (ex *Exec) upperByte(b *Term) *Term {
	tc := ex.tc
	isLo := tc.And(tc.CmpBV(OUle, tc.Const(BV(8), 'a'), b), tc.CmpBV(OUle, b, tc.Const(BV(8), 'z')))
	return tc.Ite(isLo, tc.BinBV(OSub, b, tc.Const(BV(8), 32)), b)
}

// concreteOnly wraps a native implementation that applies when every argument is concrete.
func concreteStr(v Value) (string, bool) {
	switch x := v.(type) {
	case *StrV:
		return x.concrete()
	}
	return "", false
}

func inToLower(ex *Exec, fn *ssa.Function, args []Value) (Value, bool) {
	if s, ok := concreteStr(args[0]); ok {
		return ex.strConst(strings.ToLower(s)), true
	}
	// symbolic: ASCII-only model is not the real function for bytes >= 0x80; run the body
	return nil, false
}

func inToUpper(ex *Exec, fn *ssa.Function, args []Value) (Value, bool) {
	if s, ok := concreteStr(args[0]); ok {
		return ex.strConst(strings.ToUpper(s)), true
	}
	return nil, false
}

func termInt(v Value) (int64, bool) {
	t, ok := v.(*Term)
	if !ok || t.op != OConst {
		return 0, false
	}
	return sext(t.cval, t.sort.W), true
}

func (ex *Exec) errorValue(msg string) Value {
	// a distinct *errors.errorString
	et := ex.ld.errorStringType
	if et == nil {
		ex.inconclusive("errors.errorString type not loaded")
	}
	c := ex.newCell(et)
	ex.storeCell(c.kids[0], ex.strConst(msg))
	return IfaceV{t: types.NewPointer(et), v: PtrV{c: c}}
}

func inParseFloat(ex *Exec, fn *ssa.Function, args []Value) (Value, bool) {
	s, ok := concreteStr(args[0])
	bs, ok2 := termInt(args[1])
	if !ok || !ok2 {
		return nil, false
	}
	f, err := strconv.ParseFloat(s, int(bs))
	var ev Value = IfaceV{}
	if err != nil {
		ev = ex.errorValue(err.Error())
	}
	return TupleV{ex.tc.F64(f), ev}, true
}

func inParseInt(ex *Exec, fn *ssa.Function, args []Value) (Value, bool) {
	s, ok := concreteStr(args[0])
	base, ok2 := termInt(args[1])
	bs, ok3 := termInt(args[2])
	if !ok || !ok2 || !ok3 {
		return nil, false
	}
	var ev Value = IfaceV{}
	if fn.Name() == "ParseUint" {
		v, err := strconv.ParseUint(s, int(base), int(bs))
		if err != nil {
			ev = ex.errorValue(err.Error())
		}
		return TupleV{ex.tc.Const(BV(64), v), ev}, true
	}
	v, err := strconv.ParseInt(s, int(base), int(bs))
	if err != nil {
		ev = ex.errorValue(err.Error())
	}
	return TupleV{ex.tc.Const(BV(64), uint64(v)), ev}, true
}

func inAtoi(ex *Exec, fn *ssa.Function, args []Value) (Value, bool) {
	s, ok := concreteStr(args[0])
	if !ok {
		return nil, false
	}
	v, err := strconv.Atoi(s)
	var ev Value = IfaceV{}
	if err != nil {
		ev = ex.errorValue(err.Error())
	}
	return TupleV{ex.tc.Const(BV(64), uint64(int64(v))), ev}, true
}

func inFormatFloat(ex *Exec, fn *ssa.Function, args []Value) (Value, bool) {
	t, ok := args[0].(*Term)
	fm, ok2 := termInt(args[1])
	pr, ok3 := termInt(args[2])
	bs, ok4 := termInt(args[3])
	if !ok || t.op != OConst || !ok2 || !ok3 || !ok4 {
		return nil, false
	}
	return ex.strConst(strconv.FormatFloat(math.Float64frombits(t.cval), byte(fm), int(pr), int(bs))), true
}

func inAppendFloat(ex *Exec, fn *ssa.Function, args []Value) (Value, bool) {
	t, ok := args[1].(*Term)
	fm, ok2 := termInt(args[2])
	pr, ok3 := termInt(args[3])
	bs, ok4 := termInt(args[4])
	if !ok || t.op != OConst || !ok2 || !ok3 || !ok4 {
		return nil, false
	}
	s := strconv.FormatFloat(math.Float64frombits(t.cval), byte(fm), int(pr), int(bs))
	add := make([]Value, len(s))
	for i := 0; i < len(s); i++ {
		add[i] = ex.byteConst[s[i]]
	}
	return ex.appendVals(args[0].(SliceV), add, types.Typ[types.Uint8]), true
}

func inMakeNoZero(ex *Exec, fn *ssa.Function, args []Value) (Value, bool) {
	n := int(ex.concretize(args[0].(*Term), "MakeNoZero"))
	if n > ex.h.cfg.MaxAlloc {
		ex.inconclusive("MakeNoZero exceeds allocation cap")
	}
	return SliceV{arr: ex.newArrayCell(types.Typ[types.Uint8], n), len: n, cap: n}, true
}

// deterministic engine clock: 1 ms per reading (harnesses that quantify over time replace time.Now by a model)
func (ex *Exec) clockTick() int64 {
	ex.clockSeq++
	ex.stubsSeen["clock: deterministic, 1 ms per reading (time.Now/Since)"] = true
	return int64(ex.clockSeq) * 1000000
}

func inRuntimeNow(ex *Exec, fn *ssa.Function, args []Value) (Value, bool) {
	ns := ex.clockTick()
	sec := int64(1700000000) + ns/1000000000
	nsec := ns % 1000000000
	return TupleV{ex.tc.Const(BV(64), uint64(sec)), ex.tc.Const(BV(32), uint64(nsec)), ex.tc.Const(BV(64), uint64(1000000000+ns))}, true
}

func inRuntimeNano(ex *Exec, fn *ssa.Function, args []Value) (Value, bool) {
	return ex.tc.Const(BV(64), uint64(1000000000+ex.clockTick())), true
}

// header-struct casts between string and []byte (gjson): replaced by the equivalent copy
func inStringBytes(ex *Exec, fn *ssa.Function, args []Value) (Value, bool) {
	ex.stubsSeen["gjson.stringBytes/bytesString (unsafe header casts) replaced by copies"] = true
	return ex.bytesToSlice(args[0].(*StrV).b, nil), true
}
func inBytesString(ex *Exec, fn *ssa.Function, args []Value) (Value, bool) {
	ex.stubsSeen["gjson.stringBytes/bytesString (unsafe header casts) replaced by copies"] = true
	return &StrV{b: ex.sliceBytes(args[0].(SliceV))}, true
}

// sync.Pool without pooling: Get always asks New (or returns nil), Put drops the value.
func inPoolGet(ex *Exec, fn *ssa.Function, args []Value) (Value, bool) {
	p := args[0].(PtrV)
	if p.c == nil {
		ex.nilDeref()
	}
	ex.stubsSeen["sync.Pool: no pooling (Get calls New, Put discards)"] = true
	st := p.c.typ.Underlying().(*types.Struct)
	for i := 0; i < st.NumFields(); i++ {
		if st.Field(i).Name() == "New" {
			f := ex.loadCell(p.c.kids[i]).(FuncV)
			if f.fn == nil {
				return IfaceV{}, true
			}
			return ex.callValue(f, nil, nil), true
		}
	}
	return IfaceV{}, true
}

// runtime.Gosched in thread mode: the spinning thread is not eligible again until another thread has stepped
func inGosched(ex *Exec, fn *ssa.Function, args []Value) (Value, bool) {
	if ex.threads != nil && ex.threads.running {
		ex.threads.yieldPoint(ex, "wait", true)
	}
	return nil, true
}

func inIdentity(ex *Exec, fn *ssa.Function, args []Value) (Value, bool) { return args[0], true }

func inNoop(ex *Exec, fn *ssa.Function, args []Value) (Value, bool) {
	res := fn.Signature.Results()
	if res.Len() == 0 {
		return nil, true
	}
	return ex.zeroResults(fn), true
}

func inFloat64bits(ex *Exec, fn *ssa.Function, args []Value) (Value, bool) {
	return ex.floatBits(args[0].(*Term)), true
}
func inFloat64frombits(ex *Exec, fn *ssa.Function, args []Value) (Value, bool) {
	return ex.tc.Conv(OBToF, args[0].(*Term), F64Sort), true
}
func inFloat32frombits(ex *Exec, fn *ssa.Function, args []Value) (Value, bool) {
	return ex.tc.Conv(OBToF, args[0].(*Term), F32Sort), true
}
func inIsNaN(ex *Exec, fn *ssa.Function, args []Value) (Value, bool) {
	return ex.tc.FUn(OFIsNaN, args[0].(*Term)), true
}
func inIsInf(ex *Exec, fn *ssa.Function, args []Value) (Value, bool) {
	tc := ex.tc
	f := args[0].(*Term)
	sign := args[1].(*Term)
	inf := tc.FUn(OFIsInf, f)
	pos := tc.FCmp(OFLt, tc.F64(0), f)
	sp := tc.CmpBV(OSle, tc.Const(BV(64), 0), sign) // sign >= 0 : +inf allowed
	sn := tc.CmpBV(OSle, sign, tc.Const(BV(64), 0)) // sign <= 0 : -inf allowed
	return tc.And(inf, tc.Or(tc.And(pos, sp), tc.And(tc.Not(pos), sn))), true
}
func inFAbs(ex *Exec, fn *ssa.Function, args []Value) (Value, bool) {
	return ex.tc.FUn(OFAbs, args[0].(*Term)), true
}
func inFloor(ex *Exec, fn *ssa.Function, args []Value) (Value, bool) {
	return ex.tc.FUn(OFRoundRTN, args[0].(*Term)), true
}
func inCeil(ex *Exec, fn *ssa.Function, args []Value) (Value, bool) {
	return ex.tc.FUn(OFRoundRTP, args[0].(*Term)), true
}
func inTrunc(ex *Exec, fn *ssa.Function, args []Value) (Value, bool) {
	return ex.tc.FUn(OFRoundRTZ, args[0].(*Term)), true
}
func inSignbit(ex *Exec, fn *ssa.Function, args []Value) (Value, bool) {
	x := args[0].(*Term)
	if x.op == OConst {
		return ex.tc.Bool(x.cval>>63 != 0), true
	}
	// NaN sign is not tracked (single NaN): treated as positive
	return ex.tc.FUn(OFIsNeg, x), true
}

// math.Max / math.Min with Go's special cases (Inf, NaN, signed zeros)
func inFMax(ex *Exec, fn *ssa.Function, args []Value) (Value, bool) {
	tc := ex.tc
	x, y := args[0].(*Term), args[1].(*Term)
	nan := tc.Or(tc.FUn(OFIsNaN, x), tc.FUn(OFIsNaN, y))
	bothZero := tc.And(tc.FCmp(OFEq, x, tc.F64(0)), tc.FCmp(OFEq, y, tc.F64(0)))
	zeroPick := tc.Ite(tc.FUn(OFIsNeg, x), y, x)
	gen := tc.Ite(tc.FCmp(OFLt, y, x), x, y)
	return tc.Ite(nan, tc.F64(math.NaN()), tc.Ite(bothZero, zeroPick, gen)), true
}
func inFMin(ex *Exec, fn *ssa.Function, args []Value) (Value, bool) {
	tc := ex.tc
	x, y := args[0].(*Term), args[1].(*Term)
	nan := tc.Or(tc.FUn(OFIsNaN, x), tc.FUn(OFIsNaN, y))
	bothZero := tc.And(tc.FCmp(OFEq, x, tc.F64(0)), tc.FCmp(OFEq, y, tc.F64(0)))
	zeroPick := tc.Ite(tc.FUn(OFIsNeg, x), x, y)
	gen := tc.Ite(tc.FCmp(OFLt, x, y), x, y)
	return tc.Ite(nan, tc.F64(math.NaN()), tc.Ite(bothZero, zeroPick, gen)), true
}

// gjson.fillIndex computes Result.Index as the offset of value.Raw inside json by pointer subtraction.
// Engine strings are Go slices of byte terms, and substrings share the backing array, so the same offset
// is recovered from the slice capacities.
func inFillIndex(ex *Exec, fn *ssa.Function, args []Value) (Value, bool) {
	json := args[0].(*StrV)
	c := args[1].(PtrV).c
	valueCell := cellField(c, "value")
	calcd := ex.loadCell(cellField(c, "calcd")).(*Term)
	rawCell := cellField(valueCell, "Raw")
	idxCell := cellField(valueCell, "Index")
	raw := ex.loadCell(rawCell).(*StrV)
	if len(raw.b) == 0 || (calcd.op == OConst && calcd.cval != 0) {
		return nil, true
	}
	idx := 0
	if cap(json.b) > 0 && cap(raw.b) > 0 {
		jb, rb := json.b[:cap(json.b)], raw.b[:cap(raw.b)]
		if &jb[len(jb)-1] == &rb[len(rb)-1] {
			idx = cap(json.b) - cap(raw.b)
		}
	}
	if idx < 0 || idx >= len(json.b) {
		idx = 0
	}
	ex.storeCell(idxCell, ex.intConst(idx))
	return nil, true
}

func cellField(c *Cell, name string) *Cell {
	st := c.typ.Underlying().(*types.Struct)
	for i := 0; i < st.NumFields(); i++ {
		if st.Field(i).Name() == name {
			return c.kids[i]
		}
	}
	panic("engine: no field " + name + " in " + c.typ.String())
}

func inSqrt(ex *Exec, fn *ssa.Function, args []Value) (Value, bool) {
	return ex.tc.FUn(OFSqrt, args[0].(*Term)), true
}

// concrete-only math (trigonometry etc.): native when the argument is constant
func mathNative(f func(float64) float64) intrinsicFn {
	return func(ex *Exec, fn *ssa.Function, args []Value) (Value, bool) {
		t := args[0].(*Term)
		if t.op != OConst {
			ex.inconclusive("transcendental function " + fn.String() + " on a symbolic argument")
		}
		return ex.tc.F64(f(math.Float64frombits(t.cval))), true
	}
}
func mathNative2(f func(float64, float64) float64) intrinsicFn {
	return func(ex *Exec, fn *ssa.Function, args []Value) (Value, bool) {
		a, b := args[0].(*Term), args[1].(*Term)
		if a.op != OConst || b.op != OConst {
			ex.inconclusive("transcendental function " + fn.String() + " on a symbolic argument")
		}
		return ex.tc.F64(f(math.Float64frombits(a.cval), math.Float64frombits(b.cval))), true
	}
}

// sync/atomic as plain memory operations (visible operations in thread mode)
func inAtomicLoad(ex *Exec, fn *ssa.Function, args []Value) (Value, bool) {
	return ex.load(args[0].(PtrV), nil), true
}
func inAtomicStore(ex *Exec, fn *ssa.Function, args []Value) (Value, bool) {
	ex.store(args[0].(PtrV), args[1])
	return nil, true
}
func inAtomicAdd(ex *Exec, fn *ssa.Function, args []Value) (Value, bool) {
	p := args[0].(PtrV)
	n := ex.tc.BinBV(OAdd, ex.load(p, nil).(*Term), args[1].(*Term))
	ex.store(p, n)
	return n, true
}
func inAtomicSwap(ex *Exec, fn *ssa.Function, args []Value) (Value, bool) {
	p := args[0].(PtrV)
	old := ex.load(p, nil)
	ex.store(p, args[1])
	return old, true
}
func inAtomicCAS(ex *Exec, fn *ssa.Function, args []Value) (Value, bool) {
	p := args[0].(PtrV)
	cur := ex.load(p, nil)
	if ex.branch(ex.eqValues(cur, args[1])) {
		ex.store(p, args[2])
		return ex.tc.True, true
	}
	return ex.tc.False, true
}

func inSprintf(ex *Exec, fn *ssa.Function, args []Value) (Value, bool) {
	var res *StrV
	if s, ok := ex.formatNative(args[0], args[1]); ok {
		res = ex.strConst(s)
	} else if sv, ok := ex.formatSymbolic(args[0], args[1]); ok {
		res = sv
	} else {
		ex.stubsSeen["fmt.Sprintf/Errorf with unsupported symbolic operands -> opaque text \"<fmt>\""] = true
		res = ex.strConst("<fmt>")
	}
	if fn.Name() == "Errorf" {
		et := ex.ld.errorStringType
		if et == nil {
			ex.inconclusive("errors.errorString type not loaded")
		}
		c := ex.newCell(et)
		ex.storeCell(c.kids[0], res)
		return IfaceV{t: types.NewPointer(et), v: PtrV{c: c}}, true
	}
	return res, true
}

// formatSymbolic handles %s / %v / %d / %q-free formats whose string operands may hold symbolic bytes:
// the operand's bytes are spliced into the result (what fmt does for strings).
func (ex *Exec) formatSymbolic(format Value, va Value) (*StrV, bool) {
	f, ok := concreteStr(format)
	if !ok {
		return nil, false
	}
	ops := ex.sliceElems(va.(SliceV))
	var out []*Term
	k := 0
	for i := 0; i < len(f); i++ {
		if f[i] != '%' {
			out = append(out, ex.byteConst[f[i]])
			continue
		}
		i++
		if i >= len(f) {
			return nil, false
		}
		if f[i] == '%' {
			out = append(out, ex.byteConst['%'])
			continue
		}
		if k >= len(ops) {
			return nil, false
		}
		iv, ok := ops[k].(IfaceV)
		k++
		if !ok {
			return nil, false
		}
		switch f[i] {
		case 's', 'v':
			if sv, ok := iv.v.(*StrV); ok {
				out = append(out, sv.b...)
				continue
			}
			// error values print their message
			if p, ok := iv.v.(PtrV); ok && p.c != nil && ex.ld.errorStringType != nil && types.Identical(p.c.typ, ex.ld.errorStringType) {
				out = append(out, ex.loadCell(p.c.kids[0]).(*StrV).b...)
				continue
			}
			g, ok := ex.toGo(iv)
			if !ok {
				return nil, false
			}
			out = append(out, ex.strConst(fmt.Sprintf("%"+string(f[i]), g)).b...)
		case 'd':
			g, ok := ex.toGo(iv)
			if !ok {
				return nil, false
			}
			out = append(out, ex.strConst(fmt.Sprintf("%d", g)).b...)
		default:
			return nil, false
		}
	}
	if k != len(ops) {
		return nil, false
	}
	return &StrV{b: out}, true
}

// formatNative runs the real fmt.Sprintf when the format and all operands are concrete scalars/strings.
func (ex *Exec) formatNative(format Value, va Value) (string, bool) {
	f, ok := concreteStr(format)
	if !ok {
		return "", false
	}
	var goArgs []interface{}
	for _, e := range ex.sliceElems(va.(SliceV)) {
		iv, ok := e.(IfaceV)
		if !ok {
			return "", false
		}
		g, ok := ex.toGo(iv)
		if !ok {
			return "", false
		}
		goArgs = append(goArgs, g)
	}
	return fmt.Sprintf(f, goArgs...), true
}

func (ex *Exec) toGo(iv IfaceV) (interface{}, bool) {
	if iv.t == nil {
		return nil, true
	}
	switch x := iv.v.(type) {
	case *StrV:
		s, ok := x.concrete()
		return s, ok
	case *Term:
		if x.op != OConst {
			return nil, false
		}
		s, signed, _ := scalarSort(iv.t)
		switch s.K {
		case SBool:
			return x.cval != 0, true
		case SF64:
			return math.Float64frombits(x.cval), true
		case SF32:
			return math.Float32frombits(uint32(x.cval)), true
		case SBV:
			if signed {
				switch s.W {
				case 8:
					return int8(x.cval), true
				case 16:
					return int16(x.cval), true
				case 32:
					return int32(x.cval), true
				}
				return int(sext(x.cval, s.W)), true
			}
			switch s.W {
			case 8:
				return uint8(x.cval), true
			case 16:
				return uint16(x.cval), true
			case 32:
				return uint32(x.cval), true
			}
			return x.cval, true
		}
	case PtrV:
		// error values: *errors.errorString
		if x.c != nil && ex.ld.errorStringType != nil && types.Identical(x.c.typ, ex.ld.errorStringType) {
			if s, ok := ex.loadCell(x.c.kids[0]).(*StrV).concrete(); ok {
				return fmt.Errorf("%s", s), true
			}
		}
	case SliceV:
		if eb, ok := x.arrElem().Underlying().(*types.Basic); ok && eb.Kind() == types.Uint8 {
			if s, ok := (&StrV{b: ex.sliceBytes(x)}).concrete(); ok {
				return []byte(s), true
			}
		}
	}
	return nil, false
}

func (s SliceV) arrElem() types.Type {
	if s.arr == nil {
		return types.Typ[types.Invalid]
	}
	return s.arr.typ.Underlying().(*types.Array).Elem()
}

var intrinsicTable = map[string]intrinsicFn{
	"internal/bytealg.IndexByte":         inIndexByte,
	"internal/bytealg.IndexByteString":   inIndexByte,
	"internal/bytealg.LastIndexByte":     inLastIndexByte,
	"internal/bytealg.LastIndexByteString": inLastIndexByte,
	"internal/bytealg.Equal":             inEqual,
	"internal/bytealg.Compare":           inCompare,
	"internal/bytealg.Count":             inCount,
	"internal/bytealg.CountString":       inCount,
	"internal/bytealg.Index":             inIndex,
	"internal/bytealg.IndexString":       inIndex,
	"bytes.Equal":                        inEqual,
	"bytes.Compare":                      inCompare,
	"bytes.Index":                        inIndex,
	"bytes.IndexByte":                    inIndexByte,
	"bytes.LastIndex":                    inLastIndex,
	"bytes.Contains":                     inContains,
	"bytes.HasPrefix":                    inHasPrefix,
	"bytes.HasSuffix":                    inHasSuffix,
	"strings.Index":                      inIndex,
	"strings.IndexByte":                  inIndexByte,
	"strings.LastIndex":                  inLastIndex,
	"strings.LastIndexByte":              inLastIndexByte,
	"strings.Contains":                   inContains,
	"strings.HasPrefix":                  inHasPrefix,
	"strings.HasSuffix":                  inHasSuffix,
	"strings.Compare":                    inCompare,
	"strings.ToLower":                    inToLower,
	"strings.ToUpper":                    inToUpper,
	"internal/stringslite.Index":         inIndex,
	"internal/stringslite.IndexByte":     inIndexByte,
	"internal/stringslite.HasPrefix":     inHasPrefix,
	"internal/stringslite.HasSuffix":     inHasSuffix,
	"strconv.ParseFloat":                 inParseFloat,
	"strconv.ParseInt":                   inParseInt,
	"strconv.ParseUint":                  inParseInt,
	"strconv.Atoi":                       inAtoi,
	"strconv.FormatFloat":                inFormatFloat,
	"strconv.AppendFloat":                inAppendFloat,
	"math.Float64bits":                   inFloat64bits,
	"math.Float64frombits":               inFloat64frombits,
	"math.Float32frombits":               inFloat32frombits,
	"math.Float32bits":                   inFloat64bits,
	"math.IsNaN":                         inIsNaN,
	"math.IsInf":                         inIsInf,
	"math.Abs":                           inFAbs,
	"math.Floor":                         inFloor,
	"math.Ceil":                          inCeil,
	"math.Trunc":                         inTrunc,
	"math.Sqrt":                          inSqrt,
	"math.Sin":                           mathNative(math.Sin),
	"math.Cos":                           mathNative(math.Cos),
	"math.Tan":                           mathNative(math.Tan),
	"math.Asin":                          mathNative(math.Asin),
	"math.Acos":                          mathNative(math.Acos),
	"math.Atan":                          mathNative(math.Atan),
	"math.Exp":                           mathNative(math.Exp),
	"math.Log":                           mathNative(math.Log),
	"math.Atan2":                         mathNative2(math.Atan2),
	"math.Pow":                           mathNative2(math.Pow),
	"math.Mod":                           mathNative2(math.Mod),
	"sync/atomic.LoadInt32":              inAtomicLoad,
	"sync/atomic.LoadInt64":              inAtomicLoad,
	"sync/atomic.LoadUint32":             inAtomicLoad,
	"sync/atomic.LoadUint64":             inAtomicLoad,
	"sync/atomic.LoadPointer":            inAtomicLoad,
	"sync/atomic.StoreInt32":             inAtomicStore,
	"sync/atomic.StoreInt64":             inAtomicStore,
	"sync/atomic.StoreUint32":            inAtomicStore,
	"sync/atomic.StoreUint64":            inAtomicStore,
	"sync/atomic.AddInt32":               inAtomicAdd,
	"sync/atomic.AddInt64":               inAtomicAdd,
	"sync/atomic.AddUint32":              inAtomicAdd,
	"sync/atomic.AddUint64":              inAtomicAdd,
	"sync/atomic.SwapInt32":              inAtomicSwap,
	"sync/atomic.SwapInt64":              inAtomicSwap,
	"sync/atomic.SwapUint32":             inAtomicSwap,
	"sync/atomic.CompareAndSwapInt32":    inAtomicCAS,
	"sync/atomic.CompareAndSwapInt64":    inAtomicCAS,
	"sync/atomic.CompareAndSwapUint32":   inAtomicCAS,
	"sync/atomic.CompareAndSwapUint64":   inAtomicCAS,
	"fmt.Sprintf":                        inSprintf,
	"fmt.Errorf":                         inSprintf,
	"time.runtimeNow":                    inRuntimeNow,
	"time.now":                           inRuntimeNow,
	"time.runtimeNano":                   inRuntimeNano,
	"time.Sleep":                         inNoop,
	"github.com/tidwall/gjson.stringBytes": inStringBytes,
	"github.com/tidwall/gjson.bytesString": inBytesString,
	"(*sync.Pool).Put":                   inNoop,
	"internal/abi.NoEscape":              inIdentity,
	"internal/bytealg.MakeNoZero":        inMakeNoZero,
	"(*strings.Builder).copyCheck":       inNoop,
	"runtime.Gosched":                    inGosched,
	"runtime.KeepAlive":                  inNoop,
	"internal/race.Enabled":              inNoop,
	"internal/race.Acquire":              inNoop,
	"internal/race.Release":              inNoop,
	"internal/race.ReleaseMerge":         inNoop,
	"internal/race.Disable":              inNoop,
	"internal/race.Enable":               inNoop,
	"internal/race.ReadRange":            inNoop,
	"internal/race.WriteRange":           inNoop,
	"(*sync.Mutex).Lock":                 inNoop,
	"(*sync.Mutex).Unlock":               inNoop,
	"(*sync.RWMutex).Lock":               inNoop,
	"(*sync.RWMutex).Unlock":             inNoop,
	"(*sync.RWMutex).RLock":              inNoop,
	"(*sync.RWMutex).RUnlock":            inNoop,
	"(*sync.WaitGroup).Add":              inNoop,
	"(*sync.WaitGroup).Done":             inNoop,
	"(*sync.WaitGroup).Wait":             inNoop,
	"(*sync.Cond).Broadcast":             inNoop,
	"(*sync.Cond).Signal":                inNoop,
	"(*sync.noCopy).Lock":                inNoop,
}

// time.newTimer: a timer object that never fires (AfterFunc / context.WithDeadline); Stop/Reset report "not active".
func inNewTimer(ex *Exec, fn *ssa.Function, args []Value) (Value, bool) {
	ex.stubsSeen["timers: never fire (time.AfterFunc / context.WithDeadline deadlines do not expire)"] = true
	pt, ok := fn.Signature.Results().At(0).Type().Underlying().(*types.Pointer)
	if !ok {
		return nil, false
	}
	c := ex.newCell(pt.Elem())
	if st, ok := pt.Elem().Underlying().(*types.Struct); ok {
		for i := 0; i < st.NumFields(); i++ {
			if st.Field(i).Name() == "initTimer" {
				ex.storeCell(c.kids[i], ex.tc.Bool(true))
			}
		}
	}
	return PtrV{c: c}, true
}

// sync/atomic.Value as a plain interface cell (the real code goes through unsafe eface words)
func inAtomicValueLoad(ex *Exec, fn *ssa.Function, args []Value) (Value, bool) {
	p := args[0].(PtrV)
	if p.c == nil {
		ex.nilDeref()
	}
	return ex.loadCell(p.c.kids[0]), true
}
func inAtomicValueStore(ex *Exec, fn *ssa.Function, args []Value) (Value, bool) {
	p := args[0].(PtrV)
	if p.c == nil {
		ex.nilDeref()
	}
	ex.storeCell(p.c.kids[0], args[1])
	return nil, true
}

// errors.Is without reflection: identity with the target, an Is method, or the Unwrap() error chain
func inErrorsIs(ex *Exec, fn *ssa.Function, args []Value) (Value, bool) {
	cur, ok1 := args[0].(IfaceV)
	target, ok2 := args[1].(IfaceV)
	if !ok1 || !ok2 {
		return nil, false
	}
	for depth := 0; depth < 32; depth++ {
		if cur.t == nil {
			return ex.tc.Bool(target.t == nil), true
		}
		if target.t != nil && types.Identical(cur.t, target.t) && types.Comparable(cur.t) {
			if ex.branch(ex.eqValues(cur, target)) {
				return ex.tc.True, true
			}
		}
		ms := types.NewMethodSet(cur.t)
		if sel := ms.Lookup(nil, "Is"); sel != nil {
			if m, ok := sel.Obj().(*types.Func); ok {
				if r, ok := ex.invoke(cur, m, []Value{target}).(*Term); ok && ex.branch(r) {
					return ex.tc.True, true
				}
			}
		}
		sel := ms.Lookup(nil, "Unwrap")
		if sel == nil {
			return ex.tc.False, true
		}
		m, ok := sel.Obj().(*types.Func)
		if !ok {
			return ex.tc.False, true
		}
		sig := m.Type().(*types.Signature)
		if sig.Params().Len() != 0 || sig.Results().Len() != 1 {
			return nil, false
		}
		nxt, ok := ex.invoke(cur, m, nil).(IfaceV)
		if !ok {
			return nil, false // Unwrap() []error and the like: run the real code
		}
		cur = nxt
	}
	return nil, false
}

func init() {
	intrinsicTable["errors.Is"] = inErrorsIs
	intrinsicTable["(*sync/atomic.Value).Load"] = inAtomicValueLoad
	intrinsicTable["(*sync/atomic.Value).Store"] = inAtomicValueStore
	intrinsicTable["github.com/mmcloughlin/geohash.hasBMI2"] = inNoop // no assembly: the portable Go encoder runs
	intrinsicTable["time.newTimer"] = inNewTimer
	intrinsicTable["time.stopTimer"] = inNoop
	intrinsicTable["time.resetTimer"] = inNoop
	intrinsicTable["(*sync.Pool).Get"] = inPoolGet
	intrinsicTable["math.Max"] = inFMax
	intrinsicTable["math.Min"] = inFMin
	intrinsicTable["math.Signbit"] = inSignbit
	intrinsicTable["github.com/tidwall/gjson.fillIndex"] = inFillIndex
	intrinsicTable["time.initLocal"] = inNoop
	intrinsicTable["fmt.Fprintf"] = inFprintf
	intrinsicTable["sort.Slice"] = inSortSlice
	intrinsicTable["sort.SliceStable"] = inSortSlice
	intrinsicTable["sort.Strings"] = inSortStrings
	intrinsicTable["github.com/tidwall/tile38/internal/server.Sha1Sum"] = inSha1Sum
	intrinsicTable["crypto/md5.Sum"] = inMd5Sum
	intrinsicTable["fmt.Sprint"] = inSprint
	intrinsicTable["crypto/internal/boring.Unreachable"] = inNoop
}

func inSprint(ex *Exec, fn *ssa.Function, args []Value) (Value, bool) {
	var goArgs []interface{}
	for _, e := range ex.sliceElems(args[0].(SliceV)) {
		iv, ok := e.(IfaceV)
		if !ok {
			ex.inconclusive("fmt.Sprint operand")
		}
		g, ok := ex.toGo(iv)
		if !ok {
			ex.inconclusive("fmt.Sprint with a symbolic or unsupported operand")
		}
		goArgs = append(goArgs, g)
	}
	return ex.strConst(fmt.Sprint(goArgs...)), true
}

// hashes on concrete input run natively (their block functions are assembly)
func inSha1Sum(ex *Exec, fn *ssa.Function, args []Value) (Value, bool) {
	s, ok := concreteStr(args[0])
	if !ok {
		ex.inconclusive("sha1 of symbolic data")
	}
	h := sha1.Sum([]byte(s))
	return ex.strConst(hex.EncodeToString(h[:])), true
}

func inMd5Sum(ex *Exec, fn *ssa.Function, args []Value) (Value, bool) {
	s, ok := (&StrV{b: ex.sliceBytes(args[0].(SliceV))}).concrete()
	if !ok {
		ex.inconclusive("md5 of symbolic data")
	}
	h := md5.Sum([]byte(s))
	e := make([]Value, 16)
	for i := range e {
		e[i] = ex.byteConst[h[i]]
	}
	return ArrayV{e}, true
}

// sort.Slice / sort.SliceStable (reflection-based swapper in the real code): a stable insertion sort
// that drives the caller's real less closure and swaps the slice elements in place.
func inSortSlice(ex *Exec, fn *ssa.Function, args []Value) (Value, bool) {
	iv, ok := args[0].(IfaceV)
	if !ok || iv.t == nil {
		ex.goPanic("sort.Slice: nil")
	}
	sl, ok := iv.v.(SliceV)
	if !ok {
		ex.inconclusive("sort.Slice on non-slice")
	}
	less := args[1].(FuncV)
	ex.stubsSeen["sort.Slice/SliceStable as a stable insertion sort driving the real less closure"] = true
	for i := 1; i < sl.len; i++ {
		for j := i; j > 0; j-- {
			r := ex.callValue(less, []Value{ex.intConst(j), ex.intConst(j - 1)}, nil).(*Term)
			if !ex.branch(r) {
				break
			}
			a, b := ex.kid(sl.arr, sl.off+j), ex.kid(sl.arr, sl.off+j-1)
			va, vb := ex.loadCell(a), ex.loadCell(b)
			ex.storeCell(a, vb)
			ex.storeCell(b, va)
		}
	}
	return nil, true
}

func inSortStrings(ex *Exec, fn *ssa.Function, args []Value) (Value, bool) {
	sl := args[0].(SliceV)
	for i := 1; i < sl.len; i++ {
		for j := i; j > 0; j-- {
			a, b := ex.kid(sl.arr, sl.off+j), ex.kid(sl.arr, sl.off+j-1)
			va, vb := ex.loadCell(a).(*StrV), ex.loadCell(b).(*StrV)
			if !ex.branch(ex.strLt(va, vb, false)) {
				break
			}
			ex.storeCell(a, vb)
			ex.storeCell(b, va)
		}
	}
	return nil, true
}

// fmt.Fprintf: format natively (concrete operands) and hand the bytes to the writer's Write method.
func inFprintf(ex *Exec, fn *ssa.Function, args []Value) (Value, bool) {
	s, ok := ex.formatNative(args[1], args[2])
	if !ok {
		ex.inconclusive("fmt.Fprintf with symbolic operands")
	}
	w, ok := args[0].(IfaceV)
	if !ok || w.t == nil {
		ex.nilDeref()
	}
	wfn := ex.ld.prog.LookupMethod(w.t, nil, "Write")
	if wfn == nil {
		ex.inconclusive("fmt.Fprintf: writer without Write")
	}
	r := ex.call(wfn, []Value{w.v, ex.bytesToSlice(ex.strConst(s).b, nil)}, nil)
	return r, true
}

// prefix-matched no-op families (logging, metrics)
var noopPrefixes = []string{
	"log.", "(*log.Logger).",
	"github.com/tidwall/tile38/internal/log.",
	"(*github.com/prometheus/", "github.com/prometheus/", "(github.com/prometheus/",
}
