package main

// Loads /repo's packages from the current working tree with the harness overlay,
// builds SSA (generics instantiated) and resolves the //verif: directives.

import (
	"fmt"
	"go/ast"
	"go/token"
	"go/types"
	"os"
	"path/filepath"
	"regexp"
	"sort"
	"strings"

	"golang.org/x/tools/go/packages"
	"golang.org/x/tools/go/ssa"
	"golang.org/x/tools/go/ssa/ssautil"
)

type replacement struct {
	pattern string
	model   *ssa.Function
	desc    string
	noop    bool
	group   string // "" = always active; otherwise only for harnesses with cfg use=<group>[,<group>]
}

type HarnessDecl struct {
	Name string
	Fn   *ssa.Function
	Cfg  map[string]string
	Doc  []string
}

type Loaded struct {
	prog      *ssa.Program
	pkg       *ssa.Package
	pkgPath   string
	fset      *token.FileSet
	harnesses []*HarnessDecl
	repl      map[string][]*replacement // normalised callee name -> replacements (one per group)
	replCache map[*ssa.Function][]*replacement
	replGlobs []*replacement
	skipInit  map[string]bool

	errorType              types.Type
	errorStringType        types.Type
	runtimeErrType         types.Type
	utf8DecodeRuneInString *ssa.Function
	visible                []visRule
	visCache               map[*ssa.Function][]string
	overlayFiles           []string
	srcFiles               map[string]bool
	dropped                map[string][]string // harness file -> harness names declared in it (file no longer compiles)
}

// commonApplies: a shared file names the packages it belongs to in a line "//verif:for a b c".
func commonApplies(src, relPkg string) bool {
	for _, line := range strings.Split(src, "\n") {
		if strings.HasPrefix(line, "//verif:for ") {
			for _, p := range strings.Fields(line[len("//verif:for "):]) {
				if p == relPkg {
					return true
				}
			}
			return false
		}
	}
	return false
}

func norm(s string) string { return strings.ReplaceAll(s, " ", "") }

var directiveRe = regexp.MustCompile(`^//verif:(\w+)(?:\[(\w+)\])?\s*(.*)$`)

// LoadPackage loads pkgPath (import path relative to the module, e.g. "internal/glob").
func LoadPackage(repo, harnessRoot, relPkg string) (*Loaded, error) {
	overlay := map[string][]byte{}
	hdir := filepath.Join(harnessRoot, relPkg)
	ents, _ := os.ReadDir(hdir)
	var ofiles []string
	pkgName := ""
	for _, e := range ents {
		n := e.Name()
		if !strings.HasSuffix(n, ".go") || strings.HasSuffix(n, "_native.go") || strings.HasSuffix(n, "_test.go") {
			continue
		}
		b, err := os.ReadFile(filepath.Join(hdir, n))
		if err != nil {
			return nil, err
		}
		dst := filepath.Join(repo, relPkg, "zz_verif_"+n)
		overlay[dst] = b
		ofiles = append(ofiles, dst)
		if m := regexp.MustCompile(`(?m)^package (\w+)`).FindSubmatch(b); m != nil {
			pkgName = string(m[1])
		}
	}
	if pkgName == "" {
		return nil, fmt.Errorf("no harness files in %s", hdir)
	}
	// shared files (package clause rewritten): harness/_common/*.go, selected per package by a "//verif:for" line
	cents, _ := os.ReadDir(filepath.Join(harnessRoot, "_common"))
	for _, e := range cents {
		n := e.Name()
		if !strings.HasSuffix(n, ".go") || strings.HasSuffix(n, "_native.go") {
			continue
		}
		b, err := os.ReadFile(filepath.Join(harnessRoot, "_common", n))
		if err != nil {
			return nil, err
		}
		if !commonApplies(string(b), relPkg) {
			continue
		}
		dst := filepath.Join(repo, relPkg, "zz_verif_common_"+n)
		overlay[dst] = []byte(strings.Replace(string(b), "package PKG", "package "+pkgName, 1))
		ofiles = append(ofiles, dst)
	}
	rt := strings.Replace(rtEngineSrc, "package PKG", "package "+pkgName, 1)
	rtPath := filepath.Join(repo, relPkg, "zz_verif_rt.go")
	overlay[rtPath] = []byte(rt)
	ofiles = append(ofiles, rtPath)

	// A change to the tree can break the compilation of a harness file (a callee changed its signature). Such files -
	// and the files that depend on them - are left out, their harnesses reported INCONCLUSIVE, and the rest still runs.
	dropped := map[string][]string{}
	hfuncRe := regexp.MustCompile(`(?m)^func (VH_\w+)\(\)`)
	var pkgs []*packages.Package
	for attempt := 0; ; attempt++ {
		cfg := &packages.Config{
			Mode: packages.NeedName | packages.NeedFiles | packages.NeedCompiledGoFiles | packages.NeedImports |
				packages.NeedDeps | packages.NeedTypes | packages.NeedSyntax | packages.NeedTypesInfo | packages.NeedTypesSizes | packages.NeedModule,
			Dir:     repo,
			Overlay: overlay,
			Env:     append(os.Environ(), "GOFLAGS=-mod=mod", "GOPROXY=off"),
		}
		var err error
		pkgs, err = packages.Load(cfg, "./"+relPkg)
		if err != nil {
			return nil, err
		}
		nerr := 0
		bad := map[string]bool{}
		foreign := false
		packages.Visit(pkgs, nil, func(p *packages.Package) {
			for _, e := range p.Errors {
				if nerr < 20 {
					fmt.Fprintf(os.Stderr, "load error: %s: %v\n", p.PkgPath, e)
				}
				nerr++
				file := e.Pos
				if i := strings.Index(file, ".go:"); i >= 0 {
					file = file[:i+3]
				}
				if _, ok := overlay[file]; ok && file != rtPath && strings.Contains(filepath.Base(file), "zz_verif_") && !strings.Contains(filepath.Base(file), "zz_verif_common_") {
					bad[file] = true
				} else {
					foreign = true
				}
			}
		})
		if nerr == 0 {
			break
		}
		if foreign || len(bad) == 0 || attempt >= 8 {
			return nil, fmt.Errorf("%d package load errors (harness does not compile against the current tree?)", nerr)
		}
		for f := range bad {
			name := strings.TrimPrefix(filepath.Base(f), "zz_verif_")
			var hs []string
			for _, m := range hfuncRe.FindAllSubmatch(overlay[f], -1) {
				hs = append(hs, string(m[1]))
			}
			dropped[name] = hs
			fmt.Fprintf(os.Stderr, "harness file %s no longer compiles against this tree: left out (%d harnesses)\n", name, len(hs))
			delete(overlay, f)
			for i, o := range ofiles {
				if o == f {
					ofiles = append(ofiles[:i], ofiles[i+1:]...)
					break
				}
			}
		}
	}
	prog, spkgs := ssautil.AllPackages(pkgs, ssa.InstantiateGenerics)
	prog.Build()
	ld := &Loaded{prog: prog, pkg: spkgs[0], pkgPath: pkgs[0].PkgPath, fset: pkgs[0].Fset,
		repl: map[string][]*replacement{}, replCache: map[*ssa.Function][]*replacement{}, skipInit: map[string]bool{}, overlayFiles: ofiles,
		srcFiles: map[string]bool{}, dropped: dropped}
	if ld.pkg == nil {
		return nil, fmt.Errorf("no ssa package for %s", relPkg)
	}
	ld.errorType = types.Universe.Lookup("error").Type()
	if ep := prog.ImportedPackage("errors"); ep != nil {
		if t := ep.Type("errorString"); t != nil {
			ld.errorStringType = t.Type()
		}
	}
	if rp := prog.ImportedPackage("runtime"); rp != nil {
		if t := rp.Type("errorString"); t != nil {
			ld.runtimeErrType = t.Type()
		}
	}
	if ld.runtimeErrType == nil {
		ld.runtimeErrType = types.Typ[types.String]
	}
	if up := prog.ImportedPackage("unicode/utf8"); up != nil {
		ld.utf8DecodeRuneInString = up.Func("DecodeRuneInString")
	}

	// directives and harness declarations from the overlay files
	isOverlay := map[string]bool{}
	for _, f := range ofiles {
		isOverlay[f] = true
	}
	type pend struct{ kind, group, arg string }
	var pending []pend
	for _, f := range pkgs[0].Syntax {
		fname := ld.fset.Position(f.Pos()).Filename
		if !isOverlay[fname] {
			ld.srcFiles[fname] = true
			continue
		}
		for _, cg := range f.Comments {
			for _, c := range cg.List {
				if m := directiveRe.FindStringSubmatch(c.Text); m != nil {
					pending = append(pending, pend{m[1], m[2], strings.TrimSpace(m[3])})
				}
			}
		}
		for _, d := range f.Decls {
			fd, ok := d.(*ast.FuncDecl)
			if !ok || fd.Recv != nil || !strings.HasPrefix(fd.Name.Name, "VH_") {
				continue
			}
			h := &HarnessDecl{Name: fd.Name.Name, Fn: ld.pkg.Func(fd.Name.Name), Cfg: map[string]string{}}
			if fd.Doc != nil {
				for _, c := range fd.Doc.List {
					h.Doc = append(h.Doc, c.Text)
					if m := directiveRe.FindStringSubmatch(c.Text); m != nil && m[1] == "cfg" {
						for _, kv := range strings.Fields(m[3]) {
							if i := strings.IndexByte(kv, '='); i > 0 {
								h.Cfg[kv[:i]] = kv[i+1:]
							}
						}
					}
				}
			}
			ld.harnesses = append(ld.harnesses, h)
		}
	}
	sort.Slice(ld.harnesses, func(i, j int) bool { return ld.harnesses[i].Name < ld.harnesses[j].Name })
	for _, p := range pending {
		switch p.kind {
		case "replace":
			parts := strings.Split(p.arg, "=>")
			if len(parts) != 2 {
				return nil, fmt.Errorf("bad //verif:replace %q", p.arg)
			}
			mname := strings.TrimSpace(parts[1])
			mf := ld.pkg.Func(mname)
			if mf == nil {
				return nil, fmt.Errorf("//verif:replace: model function %s not found", mname)
			}
			r := &replacement{pattern: norm(parts[0]), model: mf, desc: "model " + mname + " for " + strings.TrimSpace(parts[0]), group: p.group}
			ld.addRepl(r)
		case "noop":
			r := &replacement{pattern: norm(p.arg), noop: true, desc: "no-op stub for " + p.arg, group: p.group}
			ld.addRepl(r)
		case "skipinit":
			ld.skipInit[p.arg] = true
		case "visible":
			ld.visible = append(ld.visible, visRule{norm(p.arg), p.group})
		}
	}
	return ld, nil
}

func (ld *Loaded) addRepl(r *replacement) {
	if strings.HasSuffix(r.pattern, "*") {
		ld.replGlobs = append(ld.replGlobs, r)
	} else {
		ld.repl[r.pattern] = append(ld.repl[r.pattern], r)
	}
}

func fnKey(fn *ssa.Function) (string, string) {
	k1 := norm(fn.String())
	k2 := k1
	if o := fn.Origin(); o != nil && o != fn {
		k2 = norm(o.String())
	}
	return k1, k2
}

// replacements returns the models registered for fn (by exact name, generic origin name or prefix glob).
func (ld *Loaded) replacements(fn *ssa.Function) []*replacement {
	if len(ld.repl) == 0 && len(ld.replGlobs) == 0 {
		return nil
	}
	replMu.RLock()
	r, ok := ld.replCache[fn]
	replMu.RUnlock()
	if ok {
		return r
	}
	k1, k2 := fnKey(fn)
	r = append(r, ld.repl[k1]...)
	if k2 != k1 {
		r = append(r, ld.repl[k2]...)
	}
	for _, g := range ld.replGlobs {
		p := strings.TrimSuffix(g.pattern, "*")
		if strings.HasPrefix(k1, p) || strings.HasPrefix(k2, p) {
			r = append(r, g)
		}
	}
	replMu.Lock()
	ld.replCache[fn] = r
	replMu.Unlock()
	return r
}

// replacement picks the replacement that is active for the running harness (ungrouped ones always are).
func (ld *Loaded) replacement(fn *ssa.Function, groups map[string]bool) *replacement {
	rs := ld.replacements(fn)
	// a model scoped to a group the harness names wins over an unscoped one
	for _, r := range rs {
		if r.group != "" && groups[r.group] {
			return r
		}
	}
	for _, r := range rs {
		if r.group == "" {
			return r
		}
	}
	return nil
}

// intrinsic returns the engine-level handler for fn, if any.
func (ld *Loaded) intrinsic(fn *ssa.Function) intrinsicFn {
	intrMu.RLock()
	h, ok := intrCache[fn]
	intrMu.RUnlock()
	if ok {
		return h
	}
	h = ld.intrinsicSlow(fn)
	intrMu.Lock()
	intrCache[fn] = h
	intrMu.Unlock()
	return h
}

func (ld *Loaded) intrinsicSlow(fn *ssa.Function) intrinsicFn {
	name := fn.String()
	if fn.Pkg == ld.pkg && strings.HasPrefix(fn.Name(), "v") {
		if h, ok := harnessIntrinsics[fn.Name()]; ok {
			return h
		}
	}
	if h, ok := intrinsicTable[name]; ok {
		return h
	}
	if o := fn.Origin(); o != nil && o != fn {
		if h, ok := intrinsicTable[o.String()]; ok {
			return h
		}
	}
	for _, p := range noopPrefixes {
		if strings.HasPrefix(name, p) {
			return inNoop
		}
	}
	return nil
}

type visRule struct{ pattern, group string }

// isVisible: calls at which thread mode may switch threads (//verif:visible[group] patterns).
func (ld *Loaded) isVisible(fn *ssa.Function, groups map[string]bool) bool {
	visMu.RLock()
	gs, ok := ld.visCache[fn]
	visMu.RUnlock()
	if !ok {
		k1, k2 := fnKey(fn)
		gs = []string{}
		for _, r := range ld.visible {
			p := r.pattern
			hit := p == k1 || p == k2
			if strings.HasSuffix(p, "*") {
				pp := strings.TrimSuffix(p, "*")
				hit = strings.HasPrefix(k1, pp) || strings.HasPrefix(k2, pp)
			}
			if hit {
				gs = append(gs, r.group)
			}
		}
		visMu.Lock()
		if ld.visCache == nil {
			ld.visCache = map[*ssa.Function][]string{}
		}
		ld.visCache[fn] = gs
		visMu.Unlock()
	}
	for _, g := range gs {
		if g == "" || groups[g] {
			return true
		}
	}
	return false
}

// initOpaque: callees that package initialisers may not run (their results become opaque values).
func (ld *Loaded) initOpaque(fn *ssa.Function) bool {
	if fn.Pkg == nil {
		return false
	}
	p := fn.Pkg.Pkg.Path()
	switch {
	case strings.HasPrefix(p, "github.com/prometheus/"), p == "os", p == "crypto/rand", p == "reflect", p == "regexp",
		strings.HasPrefix(p, "regexp/"), p == "net", p == "net/http", strings.HasPrefix(p, "crypto/"),
		p == "encoding/json", p == "text/template", p == "html/template", p == "os/user", p == "syscall", p == "runtime",
		strings.HasPrefix(p, "google.golang.org/"), strings.HasPrefix(p, "golang.org/x/"), strings.HasPrefix(p, "github.com/aws/"):
		return true
	}
	return false
}

// findFunc locates a function or method of the package under test by the tail of its full name,
// e.g. "(*Server).netServe".
func (ld *Loaded) findFunc(suffix string) *ssa.Function {
	for _, m := range ld.pkg.Members {
		switch x := m.(type) {
		case *ssa.Function:
			if x.RelString(ld.pkg.Pkg) == suffix || strings.HasSuffix(x.String(), suffix) {
				return x
			}
		case *ssa.Type:
			for _, t := range []types.Type{x.Type(), types.NewPointer(x.Type())} {
				ms := ld.prog.MethodSets.MethodSet(t)
				for i := 0; i < ms.Len(); i++ {
					if fn := ld.prog.MethodValue(ms.At(i)); fn != nil && (fn.RelString(ld.pkg.Pkg) == suffix || strings.HasSuffix(fn.String(), suffix)) {
						return fn
					}
				}
			}
		}
	}
	return nil
}
