package main

import (
	"fmt"
	"go/types"

	"golang.org/x/tools/go/ssa"
)

// Value is one of: *Term (bool/int/float), *StrV, PtrV, SliceV, StructV, ArrayV,
// TupleV, IfaceV, FuncV, MapV, OpaqueV, *RangeIter.
type Value interface{}

type StrV struct{ b []*Term } // immutable; concrete length, bytes concrete or symbolic

type PtrV struct {
	c *Cell // nil = nil pointer (unless fn != nil)
	// symbolic element pointer (idx != nil): element idx (relative to off) of array cell arr, idx <u n proven
	arr *Cell
	idx *Term
	off int
	n   int
	// reinterpretation view installed by unsafe casts (nil = natural type of the cell)
	view types.Type
}

type SliceV struct {
	arr           *Cell // nil = nil slice
	off, len, cap int
}

type StructV struct{ f []Value }
type ArrayV struct{ e []Value }
type TupleV []Value
type IfaceV struct {
	t types.Type // nil = nil interface
	v Value
}
type FuncV struct {
	fn *ssa.Function // nil = nil func
	fv []Value
	bi *ssa.Builtin
}
type MapV struct{ m *MapObj }
type MapObj struct {
	keys  []Value
	vals  []Value
	kt    types.Type
	birth int
}
type OpaqueV struct{ why string }
type ChanV struct{ id int }

type Cell struct {
	v      Value
	kids   []*Cell
	lazy   map[int]*Cell // large arrays
	lazyN  int
	parent *Cell
	idx    int
	typ    types.Type
	birth  int
}

func isAggregate(t types.Type) bool {
	switch t.Underlying().(type) {
	case *types.Struct, *types.Array:
		return true
	}
	return false
}

const lazyArrayMin = 1024

func basicSort(b *types.Basic) (Sort, bool) {
	switch b.Kind() {
	case types.Bool, types.UntypedBool:
		return BoolSort, false
	case types.Int8:
		return BV(8), true
	case types.Int16:
		return BV(16), true
	case types.Int32, types.UntypedRune:
		return BV(32), true
	case types.Int64, types.Int, types.UntypedInt:
		return BV(64), true
	case types.Uint8:
		return BV(8), false
	case types.Uint16:
		return BV(16), false
	case types.Uint32:
		return BV(32), false
	case types.Uint64, types.Uint, types.Uintptr:
		return BV(64), false
	case types.Float32:
		return F32Sort, true
	case types.Float64, types.UntypedFloat:
		return F64Sort, true
	}
	return Sort{}, false
}

// scalarSort returns the SMT sort of a scalar Go type (ok=false if not scalar).
func scalarSort(t types.Type) (s Sort, signed bool, ok bool) {
	b, isB := t.Underlying().(*types.Basic)
	if !isB {
		return Sort{}, false, false
	}
	if b.Kind() == types.String || b.Kind() == types.UntypedString || b.Kind() == types.UnsafePointer || b.Kind() == types.UntypedNil ||
		b.Kind() == types.Complex64 || b.Kind() == types.Complex128 {
		return Sort{}, false, false
	}
	s, signed = basicSort(b)
	return s, signed, true
}

func (ex *Exec) zero(t types.Type) Value {
	switch u := t.Underlying().(type) {
	case *types.Basic:
		switch u.Kind() {
		case types.String, types.UntypedString:
			return ex.emptyStr
		case types.UnsafePointer, types.UntypedNil:
			return PtrV{}
		case types.Complex64, types.Complex128:
			return OpaqueV{"complex"}
		}
		s, _ := basicSort(u)
		return ex.tc.Const(s, 0)
	case *types.Pointer:
		return PtrV{}
	case *types.Slice:
		return SliceV{}
	case *types.Map:
		return MapV{}
	case *types.Chan:
		return ChanV{}
	case *types.Signature:
		return FuncV{}
	case *types.Interface:
		return IfaceV{}
	case *types.Struct:
		f := make([]Value, u.NumFields())
		for i := range f {
			f[i] = ex.zero(u.Field(i).Type())
		}
		return StructV{f}
	case *types.Array:
		n := int(u.Len())
		e := make([]Value, n)
		if n > 0 {
			z := ex.zero(u.Elem())
			for i := range e {
				e[i] = z
			}
		}
		return ArrayV{e}
	case *types.Tuple:
		f := make(TupleV, u.Len())
		for i := range f {
			f[i] = ex.zero(u.At(i).Type())
		}
		return f
	case *types.TypeParam:
		return OpaqueV{"typeparam"}
	}
	panic(fmt.Sprintf("zero: unsupported type %v", t))
}

func (ex *Exec) newCell(t types.Type) *Cell {
	c := &Cell{typ: t, birth: ex.epoch}
	switch u := t.Underlying().(type) {
	case *types.Struct:
		c.kids = make([]*Cell, u.NumFields())
		for i := range c.kids {
			k := ex.newCell(u.Field(i).Type())
			k.parent, k.idx = c, i
			c.kids[i] = k
		}
	case *types.Array:
		n := int(u.Len())
		if n >= lazyArrayMin {
			c.lazy = map[int]*Cell{}
			c.lazyN = n
		} else {
			c.kids = make([]*Cell, n)
			for i := range c.kids {
				k := ex.newCell(u.Elem())
				k.parent, k.idx = c, i
				c.kids[i] = k
			}
		}
	default:
		c.v = ex.zero(t)
	}
	return c
}

// newArrayCell allocates a backing array of n elements of type elem.
func (ex *Exec) newArrayCell(elem types.Type, n int) *Cell {
	return ex.newCell(types.NewArray(elem, int64(n)))
}

func (c *Cell) isArray() bool {
	_, ok := c.typ.Underlying().(*types.Array)
	return ok
}

func (c *Cell) arrayLen() int {
	if c.lazy != nil {
		return c.lazyN
	}
	return len(c.kids)
}

func (ex *Exec) kid(c *Cell, i int) *Cell {
	if c.lazy != nil {
		if i < 0 || i >= c.lazyN {
			panic(fmt.Sprintf("engine: kid index %d out of range %d", i, c.lazyN))
		}
		k, ok := c.lazy[i]
		if !ok {
			saved := ex.epoch
			ex.epoch = c.birth // a never-touched element is as old as its array
			k = ex.newCell(c.typ.Underlying().(*types.Array).Elem())
			ex.epoch = saved
			k.parent, k.idx = c, i
			c.lazy[i] = k
			// creation of a zero cell is benign: no undo needed (its value is logged on write)
		}
		return k
	}
	if i < 0 || i >= len(c.kids) {
		panic(fmt.Sprintf("engine: kid index %d out of range %d (type %v)", i, len(c.kids), c.typ))
	}
	return c.kids[i]
}

func (ex *Exec) loadCell(c *Cell) Value {
	if c.lazy != nil {
		n := c.lazyN
		e := make([]Value, n)
		z := ex.zero(c.typ.Underlying().(*types.Array).Elem())
		for i := range e {
			if k, ok := c.lazy[i]; ok {
				e[i] = ex.loadCell(k)
			} else {
				e[i] = z
			}
		}
		return ArrayV{e}
	}
	if c.kids != nil || isAggregate(c.typ) {
		if _, isS := c.typ.Underlying().(*types.Struct); isS {
			f := make([]Value, len(c.kids))
			for i, k := range c.kids {
				f[i] = ex.loadCell(k)
			}
			return StructV{f}
		}
		e := make([]Value, len(c.kids))
		for i, k := range c.kids {
			e[i] = ex.loadCell(k)
		}
		return ArrayV{e}
	}
	return c.v
}

func (ex *Exec) storeCell(c *Cell, v Value) {
	ex.storeCount++
	if c.lazy != nil {
		a, ok := v.(ArrayV)
		if !ok {
			panic("engine: store non-array into lazy array cell")
		}
		for i, e := range a.e {
			ex.storeCell(ex.kid(c, i), e)
		}
		return
	}
	if c.kids != nil || isAggregate(c.typ) {
		switch a := v.(type) {
		case StructV:
			if len(a.f) != len(c.kids) {
				panic(fmt.Sprintf("engine: struct store arity mismatch %d vs %d (%v)", len(a.f), len(c.kids), c.typ))
			}
			for i, k := range c.kids {
				ex.storeCell(k, a.f[i])
			}
		case ArrayV:
			if len(a.e) != len(c.kids) {
				panic("engine: array store arity mismatch")
			}
			for i, k := range c.kids {
				ex.storeCell(k, a.e[i])
			}
		default:
			panic(fmt.Sprintf("engine: store %T into aggregate cell %v", v, c.typ))
		}
		return
	}
	if c.birth < ex.pathEpoch && !ex.initMode {
		old := c.v
		ex.trail = append(ex.trail, func() { c.v = old })
	}
	c.v = v
}

// ---- strings ----

func (ex *Exec) strConst(s string) *StrV {
	b := make([]*Term, len(s))
	for i := 0; i < len(s); i++ {
		b[i] = ex.byteConst[s[i]]
	}
	return &StrV{b}
}

func (s *StrV) concrete() (string, bool) {
	out := make([]byte, len(s.b))
	for i, t := range s.b {
		if t.op != OConst {
			return "", false
		}
		out[i] = byte(t.cval)
	}
	return string(out), true
}

func (ex *Exec) strEq(a, b *StrV) *Term {
	if len(a.b) != len(b.b) {
		return ex.tc.False
	}
	cs := make([]*Term, 0, len(a.b))
	for i := range a.b {
		e := ex.tc.Eq(a.b[i], b.b[i])
		if e == ex.tc.False {
			return e
		}
		cs = append(cs, e)
	}
	return ex.tc.And(cs...)
}

// strLt: lexicographic a < b (orEq: a <= b)
func (ex *Exec) strLt(a, b *StrV, orEq bool) *Term {
	tc := ex.tc
	n := len(a.b)
	if len(b.b) < n {
		n = len(b.b)
	}
	// tail result when common prefix is equal
	var res *Term
	if orEq {
		res = tc.Bool(len(a.b) <= len(b.b))
	} else {
		res = tc.Bool(len(a.b) < len(b.b))
	}
	for i := n - 1; i >= 0; i-- {
		lt := tc.CmpBV(OUlt, a.b[i], b.b[i])
		eq := tc.Eq(a.b[i], b.b[i])
		res = tc.Ite(lt, tc.True, tc.Ite(eq, res, tc.False))
	}
	return res
}

// sliceBytes reads the contents of a byte slice as terms.
func (ex *Exec) sliceBytes(s SliceV) []*Term {
	out := make([]*Term, s.len)
	for i := 0; i < s.len; i++ {
		out[i] = ex.loadCell(ex.kid(s.arr, s.off+i)).(*Term)
	}
	return out
}

func (ex *Exec) bytesToSlice(b []*Term, elem types.Type) SliceV {
	if elem == nil {
		elem = types.Typ[types.Uint8]
	}
	arr := ex.newArrayCell(elem, len(b))
	for i, t := range b {
		ex.kid(arr, i).v = t
	}
	return SliceV{arr: arr, off: 0, len: len(b), cap: len(b)}
}

func (ex *Exec) sliceElems(s SliceV) []Value {
	out := make([]Value, s.len)
	for i := 0; i < s.len; i++ {
		out[i] = ex.loadCell(ex.kid(s.arr, s.off+i))
	}
	return out
}

// ---- generic equality (Go ==) ----

func (ex *Exec) eqValues(a, b Value) *Term {
	tc := ex.tc
	switch x := a.(type) {
	case *Term:
		y, ok := b.(*Term)
		if !ok {
			ex.inconclusive(fmt.Sprintf("eq: term vs %T", b))
		}
		if x.sort.K == SF32 || x.sort.K == SF64 {
			return tc.FCmp(OFEq, x, y)
		}
		return tc.Eq(x, y)
	case *StrV:
		return ex.strEq(x, b.(*StrV))
	case PtrV:
		y := b.(PtrV)
		if x.idx != nil || y.idx != nil {
			ex.inconclusive("eq on symbolic element pointers")
		}
		return tc.Bool(x.c == y.c)
	case SliceV:
		y := b.(SliceV)
		// only comparison against nil is legal
		if y.arr == nil {
			return tc.Bool(x.arr == nil)
		}
		return tc.Bool(y.arr == nil && x.arr == nil)
	case MapV:
		y := b.(MapV)
		return tc.Bool(x.m == y.m)
	case FuncV:
		y := b.(FuncV)
		return tc.Bool(x.fn == y.fn && x.bi == y.bi && (x.fn == nil || y.fn == nil))
	case ChanV:
		return tc.Bool(x == b.(ChanV))
	case StructV:
		y := b.(StructV)
		cs := make([]*Term, len(x.f))
		for i := range x.f {
			cs[i] = ex.eqValues(x.f[i], y.f[i])
		}
		return tc.And(cs...)
	case ArrayV:
		y := b.(ArrayV)
		cs := make([]*Term, len(x.e))
		for i := range x.e {
			cs[i] = ex.eqValues(x.e[i], y.e[i])
		}
		return tc.And(cs...)
	case IfaceV:
		y, ok := b.(IfaceV)
		if !ok {
			ex.inconclusive(fmt.Sprintf("eq: iface vs %T", b))
		}
		if x.t == nil || y.t == nil {
			return tc.Bool(x.t == nil && y.t == nil)
		}
		if !types.Identical(x.t, y.t) {
			return tc.False
		}
		return ex.eqValues(x.v, y.v)
	case OpaqueV:
		ex.inconclusive("eq on opaque value: " + x.why)
	}
	ex.inconclusive(fmt.Sprintf("eq: unsupported %T", a))
	return nil
}

func describe(v Value) string {
	switch x := v.(type) {
	case *Term:
		if x.op == OConst {
			return x.constSMT()
		}
		return "<sym " + x.sort.SMT() + ">"
	case *StrV:
		if s, ok := x.concrete(); ok {
			return fmt.Sprintf("%q", s)
		}
		return fmt.Sprintf("<str len %d>", len(x.b))
	case PtrV:
		if x.c == nil && x.idx == nil {
			return "nil"
		}
		return "<ptr>"
	}
	return fmt.Sprintf("<%T>", v)
}
