package main

import "golang.org/x/tools/go/ssa"

// threadState is the cooperative scheduler used in thread mode (see threads_impl.go once enabled).
type threadState struct{}

func (t *threadState) maybeYield(ex *Exec, in ssa.Instruction) {}
func (t *threadState) spawn(ex *Exec, fn FuncV, args []Value)  { ex.inconclusive("thread mode not enabled") }
