package main

// Thread mode: several interpreted goroutines over one heap, scheduled cooperatively.
// A context switch can happen only at a visible operation (a call to a function matched by a
// //verif:visible directive, a sync/atomic operation, or an explicit vyield/vwait). The thread to run
// next is a path decision, so every interleaving of visible operations (within the bound) is explored
// and each explored schedule is a replayable sequence of (thread, operation) pairs.

import (
	"fmt"
	"strings"

	"golang.org/x/tools/go/ssa"
)

type thread struct {
	id      int
	name    string
	resume  chan bool // true = run, false = die
	done    bool
	waiting bool // blocked until another thread has made a step
	started bool
	fn      FuncV
	args    []Value
	frame   *Frame
	depth   int
	failure interface{} // panic value that ended the thread abnormally
	daemon  bool
	lastOp  string
	steps   int  // resumes of this thread
	// spin-wait bookkeeping: a thread that waits twice in a row without any other thread having
	// stepped in between is blocked until another thread steps
	waitOthers     int
	prevWaitOthers int
	prevWaitValid  bool
	// vblock: blocked until some thread has made progress (a step that changed memory, started or ended a thread)
	blocked   bool
	blockSeen int64
	// vblockUntil: blocked until the predicate (a harness closure, evaluated by the scheduler) holds
	blockPred Value
}

type threadState struct {
	threads  []*thread
	cur      *thread
	backCh   chan struct{} // thread -> scheduler: "I yielded / finished"
	running  bool
	switches int
	preempts int
	totalSteps int
	schedule []string
	progress int64 // steps so far that changed memory (or started / ended a thread)
	mainFrame *Frame
	mainDepth int
}

type threadKill struct{}

func (ex *Exec) threadsInit() *threadState {
	if ex.threads == nil {
		ex.threads = &threadState{backCh: make(chan struct{})}
	}
	return ex.threads
}

// spawn registers a new thread (it starts running when the scheduler first picks it).
func (ts *threadState) spawn(ex *Exec, fn FuncV, args []Value) {
	t := &thread{id: len(ts.threads), resume: make(chan bool), fn: fn, args: args}
	t.name = fmt.Sprintf("T%d", t.id)
	ts.threads = append(ts.threads, t)
}

func (ts *threadState) maybeYield(ex *Exec, in ssa.Instruction) {}

// yieldPoint is called by a running thread just before a visible operation.
// blockUntil: the calling thread is runnable again only when pred() holds (evaluated by the scheduler, so a
// blocked thread costs no scheduling decisions).
func (ts *threadState) blockUntil(ex *Exec, pred Value) {
	t := ts.cur
	if t == nil || !ts.running {
		return
	}
	t.blockPred = pred
	ts.yieldPoint(ex, "block", false)
}

func (ts *threadState) predHolds(ex *Exec, t *thread) bool {
	cur, sf, sd := ts.cur, ex.frame, ex.depth
	ts.cur = nil
	ex.frame, ex.depth = ts.mainFrame, ts.mainDepth
	r := ex.callValue(t.blockPred, nil, nil)
	ex.frame, ex.depth = sf, sd
	ts.cur = cur
	c, ok := r.(*Term)
	if !ok || c.op != OConst {
		ex.inconclusive("vblockUntil: predicate is not concrete")
	}
	return c.cval != 0
}

func (ts *threadState) blockPoint(ex *Exec) {
	t := ts.cur
	if t == nil || !ts.running {
		return
	}
	t.blocked = true
	ts.yieldPoint(ex, "block", false)
}

func (ts *threadState) yieldPoint(ex *Exec, what string, wait bool) {
	t := ts.cur
	if t == nil || !ts.running {
		return // main harness code outside vrunThreads: sequential
	}
	t.waiting = wait
	if wait {
		t.waitOthers = ts.totalSteps - t.steps
	} else {
		t.prevWaitValid = false
	}
	t.lastOp = what
	t.frame, t.depth = ex.frame, ex.depth
	ts.backCh <- struct{}{}
	if ok := <-t.resume; !ok {
		panic(threadKill{})
	}
	ex.frame, ex.depth = t.frame, t.depth
}

// run is the scheduler loop, executed on the harness (main) goroutine.
func (ts *threadState) run(ex *Exec) {
	ts.running = true
	ts.mainFrame, ts.mainDepth = ex.frame, ex.depth
	defer func() {
		ts.running = false
		ts.cur = nil
		ex.frame, ex.depth = ts.mainFrame, ts.mainDepth
	}()
	var last *thread
	for {
		var runnable, spinners []*thread
		alive := 0
		for _, t := range ts.threads {
			if t.done {
				continue
			}
			if !t.daemon {
				alive++
			}
			if t.blocked && t.blockSeen == ts.progress {
				continue // nothing has changed since it blocked
			}
			if t.blockPred != nil && !ts.predHolds(ex, t) {
				continue
			}
			if t.waiting && t.waitOthers == ts.totalSteps-t.steps {
				// spinning (runtime.Gosched / blocked lock): not scheduled again until another thread has stepped
				if !(t.prevWaitValid && t.prevWaitOthers == t.waitOthers) {
					spinners = append(spinners, t) // may retry once if nobody else can run
				}
				continue
			}
			runnable = append(runnable, t)
		}
		if len(runnable) == 0 {
			runnable = spinners
		}
		if alive == 0 {
			ts.killAll()
			return
		}
		if len(runnable) == 0 {
			ts.killAll()
			ex.reportViolation("deadlock", "all threads blocked: "+strings.Join(ts.schedule, " "), ex.model)
			panic(pathEnd{kind: "deadlock"})
		}
		// context bound: once the switch budget is used up, keep running the current thread while it can
		var pick *thread
		eager := false
		if ex.h.cfg.EagerStart {
			for _, t := range ts.threads {
				if !t.started && !t.done {
					pick, eager = t, true
					break
				}
			}
		}
		if pick == nil && ex.h.cfg.MaxSwitches > 0 && ts.switches >= ex.h.cfg.MaxSwitches && last != nil {
			for _, t := range runnable {
				if t == last {
					pick = t
				}
			}
		}
		// preemption bound: the last thread could go on (it is at an ordinary gate, neither waiting nor blocked)
		lastCanGoOn := last != nil && !last.done && !last.waiting && !last.blocked && last.blockPred == nil
		if pick == nil && ex.h.cfg.PreemptBound && ts.preempts >= ex.h.cfg.MaxPreempt && lastCanGoOn {
			for _, t := range runnable {
				if t == last {
					pick = t
				}
			}
		}
		if pick == nil {
			k := 0
			if len(runnable) > 1 {
				k = ex.choose(len(runnable))
				ex.ndVars = append(ex.ndVars, ndVar{Kind: "sched", n: k})
			}
			pick = runnable[k]
		}
		if last != nil && pick != last && !eager {
			ts.switches++
			if lastCanGoOn {
				ts.preempts++
			}
		}
		ts.cur = pick
		if pick.waiting {
			pick.prevWaitOthers, pick.prevWaitValid = pick.waitOthers, true
		}
		pick.waiting = false
		wasBlocked := pick.blocked
		pick.blocked = false
		pick.blockPred = nil
		pick.steps++
		ts.totalSteps++
		stores := ex.storeCount
		ts.resumeThread(ex, pick)
		if !eager || last == nil {
			last = pick
		}
		if ex.storeCount != stores || pick.done || !wasBlocked && !pick.blocked {
			ts.progress++
		}
		if pick.blocked {
			pick.blockSeen = ts.progress
		}
		if pick.failure != nil {
			f := pick.failure
			pick.failure = nil
			ts.killAll()
			panic(f)
		}
	}
}

func (ts *threadState) resumeThread(ex *Exec, t *thread) {
	if !t.started {
		t.started = true
		go func() {
			defer func() {
				if r := recover(); r != nil {
					if _, ok := r.(threadKill); !ok {
						t.failure = r
					}
				}
				t.done = true
				ts.backCh <- struct{}{}
			}()
			if ok := <-t.resume; !ok {
				panic(threadKill{})
			}
			ex.frame, ex.depth = nil, 0
			ex.callValue(t.fn, t.args, nil)
		}()
	}
	op := ts.pendingOpOf(t)
	ts.schedule = append(ts.schedule, t.name+":"+op)
	t.resume <- true
	<-ts.backCh
}

func (ts *threadState) pendingOpOf(t *thread) string {
	if !t.started || t.lastOp == "" {
		return "start"
	}
	return t.lastOp
}

func (ts *threadState) killAll() {
	for _, t := range ts.threads {
		if t.started && !t.done {
			t.resume <- false
			<-ts.backCh
		}
		t.done = true
	}
}
