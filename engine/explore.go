package main

import (
	"encoding/json"
	"fmt"
	"go/types"
	"math"
	"os"
	"sort"
	"strconv"
	"strings"
	"sync"
	"time"

	"golang.org/x/tools/go/ssa"
)

var (
	visMu     sync.RWMutex
	replMu    sync.RWMutex
	intrMu    sync.RWMutex
	intrCache = map[*ssa.Function]intrinsicFn{}
)

type Config struct {
	MaxSteps      int
	MaxDepth      int
	MaxAlloc      int
	IgnoreGoInThreads bool
	MaxSymIndex   int
	ConcretizeMax int
	MaxPaths      int
	Workers       int
	Solver        string
	TimeoutMs     int
	VerdictMs     int
	IgnoreGo      bool
	Samples       int
	PanicIsViolation bool
	Tier          string
	Split         int // number of vsplit partitions (0 = none)
	MaxWallS      int
	MaxSwitches   int
	MaxPreempt    int  // bound on PREEMPTIVE context switches only (used when PreemptBound); forced switches are free
	PreemptBound  bool
	EagerStart    bool // a new thread runs to its first visible operation as soon as it is spawned (no scheduling choice)
	StopFirst     bool // stop exploring at the first violation (concretisation harnesses)
}

func defaultConfig() Config {
	return Config{MaxSteps: 2000000, MaxDepth: 400, MaxAlloc: 1 << 20, MaxSymIndex: 300, ConcretizeMax: 64,
		MaxPaths: 2000000, MaxWallS: 1500, IgnoreGo: true, Workers: 16, Solver: "z3", TimeoutMs: 10000, VerdictMs: 60000, Samples: 6, PanicIsViolation: true}
}

type workItem struct {
	prefix  []dec
	model   Model
	retries int
}

type WitnessVal struct {
	Kind string `json:"kind"`
	Val  string `json:"val"` // decimal for ints/bools, hex bits for floats
}

type Violation struct {
	Harness string       `json:"harness"`
	Assert  string       `json:"assert"`
	Known   string       `json:"known,omitempty"` // known-finding id when the counterexample falls in a listed class
	Msg     string       `json:"msg,omitempty"`
	Witness []WitnessVal `json:"witness"`
	Obs     []string     `json:"obs,omitempty"`
}

type Sample struct {
	Witness []WitnessVal `json:"witness"`
	Obs     []string     `json:"obs,omitempty"`
	End     string       `json:"end"`
}

type HarnessResult struct {
	Harness      string         `json:"harness"`
	Status       string         `json:"status"` // pass | violation | inconclusive | vacuous
	Paths        int            `json:"paths"`
	PathsByEnd   map[string]int `json:"paths_by_end"`
	Steps        int64          `json:"steps"`
	Queries      SolverStats    `json:"-"`
	QTotal       int            `json:"queries"`
	QSat         int            `json:"queries_sat"`
	QUnsat       int            `json:"queries_unsat"`
	QUnknown     int            `json:"queries_unknown"`
	SolverS      float64        `json:"solver_s"`
	WallS        float64        `json:"wall_s"`
	Asserts      map[string]int `json:"asserts_reached"`
	Reach        map[string]int `json:"reach_tags"`
	Violations   []Violation    `json:"violations"`
	Inconclusive []string       `json:"inconclusive,omitempty"`
	Notes        []string       `json:"notes,omitempty"`
	Functions    []string       `json:"functions_encoded"`
	Stubs        []string       `json:"stubs"`
	Samples      []Sample       `json:"samples"`
	Bounds       map[string]string `json:"bounds"`
	Doc          []string       `json:"doc,omitempty"`
}

type HarnessRun struct {
	ld   *Loaded
	decl *HarnessDecl
	cfg  Config

	mu      sync.Mutex
	cond    *sync.Cond
	work    []workItem
	active  int
	stopped bool
	res     HarnessResult
	fns     map[string]bool
	stubs   map[string]bool
	notes   map[string]bool
	incs    map[string]bool
	vioSeen map[string]int
	unknown int
	known   map[string]bool
	doneSeen int
	rng      uint64
	groups   map[string]bool
	concrete []WitnessVal
}

func (h *HarnessRun) note(s string) {
	h.mu.Lock()
	h.notes[s] = true
	h.mu.Unlock()
}
func (h *HarnessRun) noteUnknown() {
	h.mu.Lock()
	h.unknown++
	h.mu.Unlock()
}

func applyCfg(c *Config, kv map[string]string, tier string) error {
	for k, v := range kv {
		// tier-specific keys: "quick.maxsteps=.."
		if i := strings.IndexByte(k, '.'); i > 0 {
			if k[:i] != tier {
				continue
			}
			k = k[i+1:]
		}
		n, _ := strconv.Atoi(v)
		switch k {
		case "maxsteps":
			c.MaxSteps = n
		case "maxdepth":
			c.MaxDepth = n
		case "maxpaths":
			c.MaxPaths = n
		case "maxalloc":
			c.MaxAlloc = n
		case "maxsymindex":
			c.MaxSymIndex = n
		case "concretize":
			c.ConcretizeMax = n
		case "ignorego":
			c.IgnoreGo = v == "1" || v == "true"
		case "ignoregothreads":
			c.IgnoreGoInThreads = v == "1" || v == "true"
		case "solver":
			c.Solver = v
		case "timeout":
			c.TimeoutMs = n
		case "verdict":
			c.VerdictMs = n
		case "panics":
			c.PanicIsViolation = v != "ok"
		case "split":
			c.Split = n
		case "maxwall":
			c.MaxWallS = n
		case "maxswitches":
			c.MaxSwitches = n
		case "maxpreempt":
			c.MaxPreempt, c.PreemptBound = n, true
		case "eagerstart":
			c.EagerStart = v == "1" || v == "true"
		case "stopfirst":
			c.StopFirst = v == "1" || v == "true"
		case "bound", "tier", "use":
		default:
			if strings.HasPrefix(k, "b_") {
				continue
			}
			return fmt.Errorf("unknown cfg key %q", k)
		}
	}
	return nil
}

func RunHarness(ld *Loaded, decl *HarnessDecl, base Config, known map[string]bool) *HarnessResult {
	return RunHarnessW(ld, decl, base, known, nil)
}

// RunHarnessW: with a non-nil witness the harness runs once in interpreter mode (all nondet values concrete).
func RunHarnessW(ld *Loaded, decl *HarnessDecl, base Config, known map[string]bool, witness []WitnessVal) *HarnessResult {
	cfg := base
	if err := applyCfg(&cfg, decl.Cfg, base.Tier); err != nil {
		return &HarnessResult{Harness: decl.Name, Status: "inconclusive", Inconclusive: []string{err.Error()}}
	}
	h := &HarnessRun{ld: ld, decl: decl, cfg: cfg, fns: map[string]bool{}, stubs: map[string]bool{}, notes: map[string]bool{},
		incs: map[string]bool{}, vioSeen: map[string]int{}, known: known}
	h.concrete = witness
	h.groups = map[string]bool{}
	for _, g := range strings.Split(decl.Cfg["use"], ",") {
		if g != "" {
			h.groups[g] = true
		}
	}
	h.cond = sync.NewCond(&h.mu)
	if s, err := strconv.ParseUint(os.Getenv("VERIF_SEED"), 10, 64); err == nil {
		h.rng = s
	}
	h.res = HarnessResult{Harness: decl.Name, PathsByEnd: map[string]int{}, Asserts: map[string]int{}, Reach: map[string]int{}, Bounds: map[string]string{}, Doc: decl.Doc}
	for k, v := range decl.Cfg {
		if strings.HasPrefix(k, "b_") {
			h.res.Bounds[k[2:]] = v
		}
		if strings.HasPrefix(k, cfg.Tier+".b_") {
			h.res.Bounds[k[len(cfg.Tier)+3:]] = v
		}
	}
	t0 := time.Now()
	if cfg.Split > 0 {
		for i := cfg.Split - 1; i >= 0; i-- {
			h.work = append(h.work, workItem{prefix: []dec{{choice: i}}})
		}
	} else {
		h.work = []workItem{{}}
	}
	doneCh := make(chan struct{})
	go func() {
		tk := time.NewTicker(5 * time.Second)
		defer tk.Stop()
		for {
			select {
			case <-doneCh:
				return
			case <-tk.C:
				h.mu.Lock()
				if os.Getenv("GOSYM_PROGRESS") != "" {
					fmt.Fprintf(os.Stderr, "  [%s] %.0fs paths=%d work=%d active=%d ends=%v\n", decl.Name, time.Since(t0).Seconds(), h.res.Paths, len(h.work), h.active, h.res.PathsByEnd)
				}
				if cfg.MaxWallS > 0 && time.Since(t0).Seconds() > float64(cfg.MaxWallS) && !h.stopped {
					h.incs[fmt.Sprintf("wall-clock cap %ds reached", cfg.MaxWallS)] = true
					h.stopped = true
					h.cond.Broadcast()
				}
				h.mu.Unlock()
			}
		}
	}()
	var wg sync.WaitGroup
	nw := cfg.Workers
	if nw < 1 {
		nw = 1
	}
	stats := make([]SolverStats, nw)
	for w := 0; w < nw; w++ {
		wg.Add(1)
		go func(w int) {
			defer wg.Done()
			h.worker(w, &stats[w])
		}(w)
	}
	wg.Wait()
	close(doneCh)
	for _, s := range stats {
		h.res.QTotal += s.Queries
		h.res.QSat += s.Sat
		h.res.QUnsat += s.Unsat
		h.res.QUnknown += s.Unknown
		h.res.SolverS += s.Time.Seconds()
		if s.Errors > 0 {
			h.incs[fmt.Sprintf("%d solver errors", s.Errors)] = true
		}
		if s.Restarts > 0 {
			h.notes[fmt.Sprintf("solver restarted after a protocol error, the path was executed again (%d times)", s.Restarts)] = true
		}
	}
	h.res.WallS = time.Since(t0).Seconds()
	for f := range h.fns {
		h.res.Functions = append(h.res.Functions, f)
	}
	sort.Strings(h.res.Functions)
	for s := range h.stubs {
		h.res.Stubs = append(h.res.Stubs, s)
	}
	sort.Strings(h.res.Stubs)
	for s := range h.notes {
		h.res.Notes = append(h.res.Notes, s)
	}
	sort.Strings(h.res.Notes)
	for s := range h.incs {
		h.res.Inconclusive = append(h.res.Inconclusive, s)
	}
	sort.Strings(h.res.Inconclusive)
	if h.unknown > 0 {
		h.res.Notes = append(h.res.Notes, fmt.Sprintf("%d branch-feasibility queries returned unknown (branch kept)", h.unknown))
	}
	// verdict
	hard := 0
	for _, v := range h.res.Violations {
		if v.Known == "" {
			hard++
		}
	}
	switch {
	case hard > 0:
		h.res.Status = "violation"
	case len(h.res.Inconclusive) > 0:
		h.res.Status = "inconclusive"
	case h.res.PathsByEnd["done"] == 0:
		h.res.Status = "vacuous"
		h.res.Notes = append(h.res.Notes, "no path reached the end of the harness")
	default:
		h.res.Status = "pass"
	}
	return &h.res
}

func (h *HarnessRun) worker(w int, st *SolverStats) {
	solver, err := NewSolver(h.cfg.Solver, h.cfg.TimeoutMs, os.Getenv("GOSYM_TRANSCRIPT"))
	if err != nil {
		h.mu.Lock()
		h.incs["cannot start solver: "+err.Error()] = true
		h.mu.Unlock()
		return
	}
	defer func() { solver.Close() }()
	var acc SolverStats
	ex := newExec(h.ld, h, solver)
	for {
		h.mu.Lock()
		for len(h.work) == 0 && h.active > 0 && !h.stopped {
			h.cond.Wait()
		}
		if h.stopped || (len(h.work) == 0 && h.active == 0) {
			h.mu.Unlock()
			h.cond.Broadcast()
			break
		}
		it := h.work[len(h.work)-1]
		h.work = h.work[:len(h.work)-1]
		h.active++
		h.mu.Unlock()

		end, msg := ex.runPath(it)

		if (solver.broken || solver.dead) && it.retries < 3 {
			// a solver protocol error (z3 answers "(error ... canceled)" when its timer fires between two
			// commands, after which responses no longer pair with commands): nothing of this run is kept;
			// a fresh solver process takes over and the path is executed again from its prefix
			acc.add(solver.Stats)
			solver.Close()
			ns, err := NewSolver(h.cfg.Solver, h.cfg.TimeoutMs, os.Getenv("GOSYM_TRANSCRIPT"))
			if err == nil {
				solver = ns
				ex.solver = ns
				ex.lastDecs, ex.lastLevels = nil, nil
				ex.implied = map[int]int{}
				ex.pending = ex.pending[:0]
				it.retries++
				acc.Restarts++
				acc.Errors = 0
				h.mu.Lock()
				h.active--
				h.work = append(h.work, it)
				h.mu.Unlock()
				h.cond.Broadcast()
				continue
			}
		}

		h.mu.Lock()
		h.active--
		h.res.Paths++
		h.res.PathsByEnd[end]++
		h.res.Steps += int64(ex.steps)
		if end == "inconclusive" {
			h.incs[msg] = true
		}
		for fn := range ex.fnsSeen {
			h.fns[fn.String()] = true
		}
		for s := range ex.stubsSeen {
			h.stubs[s] = true
		}
		for k, n := range ex.reached {
			if strings.HasPrefix(k, "assert:") {
				h.res.Asserts[k[7:]] += n
			} else {
				h.res.Reach[k] += n
			}
		}
		if end == "done" {
			// reservoir sample of completed paths (deterministic in VERIF_SEED)
			h.doneSeen++
			h.rng = h.rng*6364136223846793005 + 1442695040888963407
			mk := func() Sample {
				w := ex.witness(ex.model)
				if ex.lastSchedule != "" {
					w = append(w, WitnessVal{Kind: "schedule", Val: ex.lastSchedule})
				}
				return Sample{Witness: w, Obs: ex.obsStrings(ex.model), End: end}
			}
			if len(h.res.Samples) < h.cfg.Samples {
				h.res.Samples = append(h.res.Samples, mk())
			} else if j := int((h.rng >> 33) % uint64(h.doneSeen)); j < h.cfg.Samples {
				h.res.Samples[j] = mk()
			}
		}
		// push alternatives (LIFO: deepest first)
		h.work = append(h.work, ex.pending...)
		ex.pending = ex.pending[:0]
		if h.res.Paths >= h.cfg.MaxPaths {
			h.incs[fmt.Sprintf("path cap %d reached", h.cfg.MaxPaths)] = true
			h.stopped = true
		}
		h.mu.Unlock()
		h.cond.Broadcast()
	}
	acc.add(solver.Stats)
	*st = acc
}

func (a *SolverStats) add(b SolverStats) {
	a.Queries += b.Queries
	a.Sat += b.Sat
	a.Unsat += b.Unsat
	a.Unknown += b.Unknown
	a.Errors += b.Errors
	a.Time += b.Time
}

func newExec(ld *Loaded, h *HarnessRun, solver *Solver) *Exec {
	ex := &Exec{ld: ld, h: h, tc: NewTermCtx(), solver: solver, globals: map[*ssa.Global]*Cell{}, pkgInit: map[*ssa.Package]bool{}, pkgInitBad: map[*ssa.Package]string{}, implied: map[int]int{}}
	ex.emptyStr = &StrV{}
	for i := 0; i < 256; i++ {
		ex.byteConst[i] = ex.tc.Const(BV(8), uint64(i))
	}
	ex.pathEpoch = 1
	ex.epoch = 1
	return ex
}

// runPath executes the harness once along the given decision prefix.
func (ex *Exec) runPath(it workItem) (end string, msg string) {
	ex.prefix = it.prefix
	ex.pos = 0
	ex.decisions = ex.decisions[:0:0]
	ex.levelAfter = nil
	ex.pcTerms = nil
	ex.model = it.model
	ex.steps = 0
	ex.depth = 0
	ex.frame = nil
	ex.ndSeq, ex.mndSeq, ex.errSeq, ex.clockSeq = 0, 0, 0, 0
	ex.closedChans = nil
	ex.cpos = 0
	ex.ufIdx = map[string]int{}
	ex.lastClock = nil
	ex.ndVars = nil
	ex.obs = nil
	ex.reached = map[string]int{}
	ex.ghost = map[string]Value{}
	ex.fnsSeen = map[*ssa.Function]bool{}
	ex.stubsSeen = map[string]bool{}
	ex.threads = nil
	// solver synchronisation with the previous path of this worker
	sl := 0
	for sl < len(ex.lastDecs) && sl < len(it.prefix) && ex.lastDecs[sl] == it.prefix[sl] {
		sl++
	}
	ex.syncLen = sl
	for id, d := range ex.implied {
		if d > sl {
			delete(ex.implied, id)
		}
	}
	target := 0
	if sl > 0 {
		target = ex.lastLevels[sl-1]
	}
	if ex.solver != nil {
		for ex.solver.Level() > target {
			ex.solver.Pop()
		}
	}
	ex.pathEpoch++
	ex.epoch = ex.pathEpoch
	defer func() {
		ex.lastSchedule = ""
		if ex.threads != nil {
			ex.lastSchedule = strings.Join(ex.threads.schedule, " ")
			ex.threads.killAll()
			ex.threads = nil
		}
		// undo writes to init-time state
		for i := len(ex.trail) - 1; i >= 0; i-- {
			ex.trail[i]()
		}
		ex.trail = ex.trail[:0]
		ex.lastDecs = append([]dec(nil), ex.decisions...)
		ex.lastLevels = ex.levelAfter
		if ex.solver != nil && len(ex.levelAfter) > 0 {
			for ex.solver.Level() > ex.levelAfter[len(ex.levelAfter)-1] {
				ex.solver.Pop()
			}
		}
		if r := recover(); r != nil {
			switch e := r.(type) {
			case pathEnd:
				end, msg = e.kind, e.msg
			case *GoPanic:
				if ex.h.cfg.PanicIsViolation {
					end = "panic"
					ex.reportViolation("panic", e.msg, ex.model)
				} else {
					end = "panic-ok"
				}
			default:
				end, msg = "inconclusive", fmt.Sprintf("engine fault: %v", r)
				if os.Getenv("GOSYM_DEBUG") != "" {
					panic(r)
				}
			}
		}
	}()
	if ex.h.cfg.Split > 0 {
		ex.ghost["split"] = ex.intConst(ex.choose(ex.h.cfg.Split))
	}
	ex.call(ex.h.decl.Fn, nil, nil)
	return "done", ""
}

// ---------------------------------------------------------------------------
// witnesses

func (ex *Exec) completeModel(m Model) Model {
	if m != nil {
		return m
	}
	if ex.solver == nil {
		return Model{}
	}
	if ex.solver.Check() == "sat" {
		if mm := ex.fetchModel(); mm != nil {
			return mm
		}
	}
	return Model{}
}

func (ex *Exec) witness(m Model) []WitnessVal {
	m = ex.completeModel(m)
	out := make([]WitnessVal, 0, len(ex.ndVars))
	memo := map[int]uint64{}
	for _, nv := range ex.ndVars {
		if nv.Kind == "len" || nv.Kind == "choose" || nv.Kind == "sched" {
			out = append(out, WitnessVal{nv.Kind, strconv.Itoa(nv.n)})
			continue
		}
		v, _ := ex.tc.Eval(nv.t, m, memo)
		switch nv.Kind {
		case "float64":
			out = append(out, WitnessVal{nv.Kind, fmt.Sprintf("0x%016x", v)})
		case "float32":
			out = append(out, WitnessVal{nv.Kind, fmt.Sprintf("0x%08x", v)})
		case "int", "int64":
			out = append(out, WitnessVal{nv.Kind, strconv.FormatInt(int64(v), 10)})
		default:
			out = append(out, WitnessVal{nv.Kind, strconv.FormatUint(v, 10)})
		}
	}
	return out
}

func (ex *Exec) valueString(v Value, m Model, memo map[int]uint64) string {
	switch x := v.(type) {
	case *Term:
		val, ok := ex.tc.Eval(x, m, memo)
		if !ok {
			return "?"
		}
		switch x.sort.K {
		case SBool:
			return strconv.FormatBool(val != 0)
		case SF64:
			return strconv.FormatFloat(math.Float64frombits(val), 'g', -1, 64)
		case SF32:
			return strconv.FormatFloat(float64(math.Float32frombits(uint32(val))), 'g', -1, 32)
		}
		return strconv.FormatInt(sext(val, x.sort.W), 10)
	case *StrV:
		b := make([]byte, len(x.b))
		for i, t := range x.b {
			val, _ := ex.tc.Eval(t, m, memo)
			b[i] = byte(val)
		}
		return strconv.Quote(string(b))
	case SliceV:
		if x.arr == nil {
			return "[]"
		}
		parts := make([]string, x.len)
		for i, e := range ex.sliceElems(x) {
			parts[i] = ex.valueString(e, m, memo)
		}
		return "[" + strings.Join(parts, " ") + "]"
	case IfaceV:
		if x.t == nil {
			return "<nil>"
		}
		return ex.valueString(x.v, m, memo)
	case PtrV:
		if x.c == nil {
			return "<nilptr>"
		}
		// error values print their text
		if ex.ld.errorStringType != nil && x.c.kids != nil && len(x.c.kids) == 1 {
			if s, ok := ex.loadCell(x.c.kids[0]).(*StrV); ok {
				return "&" + ex.valueString(s, m, memo)
			}
		}
		return "<ptr>"
	case StructV:
		parts := make([]string, len(x.f))
		for i, e := range x.f {
			parts[i] = ex.valueString(e, m, memo)
		}
		return "{" + strings.Join(parts, " ") + "}"
	case ArrayV:
		parts := make([]string, len(x.e))
		for i, e := range x.e {
			parts[i] = ex.valueString(e, m, memo)
		}
		return "[" + strings.Join(parts, " ") + "]"
	}
	return fmt.Sprintf("<%T>", v)
}

func (ex *Exec) obsStrings(m Model) []string {
	m = ex.completeModel(m)
	memo := map[int]uint64{}
	var out []string
	for _, o := range ex.obs {
		parts := make([]string, len(o.V))
		for i, v := range o.V {
			parts[i] = ex.valueString(v, m, memo)
		}
		out = append(out, o.Tag+"="+strings.Join(parts, ","))
	}
	return out
}

func (ex *Exec) reportViolation(id, msg string, m Model) {
	ex.reportViolationK(id, msg, m, "")
}

func (ex *Exec) reportViolationK(id, msg string, m Model, known string) {
	// self-check: the counterexample model must satisfy every constraint of the path condition
	if m != nil {
		memo := map[int]uint64{}
		for i, t := range ex.pcTerms {
			if v, ok := ex.tc.Eval(t, m, memo); ok && v == 0 {
				if os.Getenv("GOSYM_DEBUG_PC") != "" {
					fmt.Fprintf(os.Stderr, "PC term %d/%d false under model: %s  [solver level %d, model size %d, syncLen %d, prefix %d, decisions %d]\n", i, len(ex.pcTerms), t.String(), ex.solver.Level(), len(m), ex.syncLen, len(ex.prefix), len(ex.decisions))
					var vs []*Term
					t.Vars(map[int]bool{}, &vs)
					for _, v := range vs {
						val, present := m[v.name]
						fmt.Fprintf(os.Stderr, "   %s = %#x present=%v\n", v.name, val, present)
					}
				}
				ex.inconclusive(fmt.Sprintf("engine self-check: counterexample model for %s violates path-condition term %d (evaluator and solver disagree)", id, i))
			}
		}
	}
	h := ex.h
	sched := ex.lastSchedule
	if ex.threads != nil && len(ex.threads.schedule) > 0 {
		sched = strings.Join(ex.threads.schedule, " ")
	}
	if sched != "" {
		msg += " schedule: " + sched
	}
	wit := ex.witness(m)
	if sched != "" {
		wit = append(wit, WitnessVal{Kind: "schedule", Val: sched})
	}
	v := Violation{Harness: h.decl.Name, Assert: id, Msg: msg, Witness: wit, Obs: ex.obsStrings(m), Known: known}
	h.mu.Lock()
	defer h.mu.Unlock()
	key := id + "|" + known
	h.vioSeen[key]++
	if h.vioSeen[key] <= 3 {
		h.res.Violations = append(h.res.Violations, v)
	}
	if h.cfg.StopFirst && !h.stopped {
		h.stopped = true
		h.cond.Broadcast()
	}
}

// ---------------------------------------------------------------------------
// harness intrinsics

// concreteNext pops the next witness value in interpreter mode.
func (ex *Exec) concreteNext(kind string) (uint64, bool) {
	w := ex.h.concrete
	if w == nil {
		return 0, false
	}
	if ex.cpos >= len(w) || w[ex.cpos].Kind != kind {
		ex.inconclusive(fmt.Sprintf("interpreter mode: witness mismatch at %d (want %s)", ex.cpos, kind))
	}
	v := w[ex.cpos].Val
	ex.cpos++
	if kind == "int" || kind == "int64" {
		x, _ := strconv.ParseInt(v, 10, 64)
		return uint64(x), true
	}
	x, _ := strconv.ParseUint(v, 0, 64)
	return x, true
}

func (ex *Exec) newND(kind string, s Sort) *Term {
	if v, ok := ex.concreteNext(kind); ok {
		t := ex.tc.Const(s, v)
		ex.ndVars = append(ex.ndVars, ndVar{Kind: kind, t: t})
		return t
	}
	ex.ndSeq++
	t := ex.tc.Var(fmt.Sprintf("n%d_%s", ex.ndSeq, kind), s)
	ex.ndVars = append(ex.ndVars, ndVar{Kind: kind, t: t})
	return t
}

func (ex *Exec) ndString(n int) *StrV {
	b := make([]*Term, n)
	for i := range b {
		b[i] = ex.newND("byte", BV(8))
	}
	return &StrV{b}
}

var harnessIntrinsics map[string]intrinsicFn

func init() {
	harnessIntrinsics = map[string]intrinsicFn{
		"vnondetBool": func(ex *Exec, fn *ssa.Function, a []Value) (Value, bool) { return ex.newND("bool", BoolSort), true },
		"vnondetByte": func(ex *Exec, fn *ssa.Function, a []Value) (Value, bool) { return ex.newND("byte", BV(8)), true },
		"vnondetInt":  func(ex *Exec, fn *ssa.Function, a []Value) (Value, bool) { return ex.newND("int", BV(64)), true },
		"vnondetInt64": func(ex *Exec, fn *ssa.Function, a []Value) (Value, bool) {
			return ex.newND("int64", BV(64)), true
		},
		"vnondetUint64": func(ex *Exec, fn *ssa.Function, a []Value) (Value, bool) {
			return ex.newND("uint64", BV(64)), true
		},
		"vnondetUint32": func(ex *Exec, fn *ssa.Function, a []Value) (Value, bool) {
			return ex.newND("uint32", BV(32)), true
		},
		"vnondetFloat64": func(ex *Exec, fn *ssa.Function, a []Value) (Value, bool) {
			return ex.newND("float64", F64Sort), true
		},
		"vnondetFloat32": func(ex *Exec, fn *ssa.Function, a []Value) (Value, bool) {
			return ex.newND("float32", F32Sort), true
		},
		"vnondetString": func(ex *Exec, fn *ssa.Function, a []Value) (Value, bool) {
			mx, ok := termInt(a[0])
			if !ok {
				ex.inconclusive("vnondetString: symbolic max")
			}
			var n int
			if v, ok := ex.concreteNext("len"); ok {
				n = int(v)
			} else {
				n = ex.choose(int(mx) + 1)
			}
			ex.ndVars = append(ex.ndVars, ndVar{Kind: "len", n: n})
			return ex.ndString(n), true
		},
		"vnondetStringN": func(ex *Exec, fn *ssa.Function, a []Value) (Value, bool) {
			n, ok := termInt(a[0])
			if !ok {
				ex.inconclusive("vnondetStringN: symbolic n")
			}
			return ex.ndString(int(n)), true
		},
		"vchoose": func(ex *Exec, fn *ssa.Function, a []Value) (Value, bool) {
			n, ok := termInt(a[0])
			if !ok || n < 1 {
				ex.inconclusive("vchoose: bad n")
			}
			var k int
			if v, ok := ex.concreteNext("choose"); ok {
				k = int(v)
			} else {
				k = ex.choose(int(n))
			}
			ex.ndVars = append(ex.ndVars, ndVar{Kind: "choose", n: k})
			return ex.intConst(k), true
		},
		"vsplit": func(ex *Exec, fn *ssa.Function, a []Value) (Value, bool) {
			if v, ok := ex.ghost["split"]; ok {
				return v, true
			}
			return ex.intConst(0), true
		},
		"vassume": func(ex *Exec, fn *ssa.Function, a []Value) (Value, bool) {
			ex.assume(a[0].(*Term))
			return nil, true
		},
		"vassert": func(ex *Exec, fn *ssa.Function, a []Value) (Value, bool) {
			id, _ := concreteStr(a[0])
			ex.vassert(id, a[1].(*Term), nil, "")
			return nil, true
		},
		"vassertK": func(ex *Exec, fn *ssa.Function, a []Value) (Value, bool) {
			id, _ := concreteStr(a[0])
			kid, _ := concreteStr(a[3])
			ex.vassert(id, a[1].(*Term), a[2].(*Term), kid)
			return nil, true
		},
		"vknown": func(ex *Exec, fn *ssa.Function, a []Value) (Value, bool) {
			id, _ := concreteStr(a[0])
			return ex.tc.Bool(ex.h.known[id]), true
		},
		"vreach": func(ex *Exec, fn *ssa.Function, a []Value) (Value, bool) {
			id, _ := concreteStr(a[0])
			ex.reached[id]++
			return nil, true
		},
		"vobs": func(ex *Exec, fn *ssa.Function, a []Value) (Value, bool) {
			tag, _ := concreteStr(a[0])
			var vs []Value
			if sl, ok := a[1].(SliceV); ok && sl.arr != nil {
				vs = ex.sliceElems(sl)
			}
			ex.obs = append(ex.obs, obsRec{Tag: tag, V: vs})
			return nil, true
		},
		"vnative": func(ex *Exec, fn *ssa.Function, a []Value) (Value, bool) { return ex.tc.False, true },
		"vconcretize": func(ex *Exec, fn *ssa.Function, a []Value) (Value, bool) {
			t := a[0].(*Term)
			return ex.tc.Const(t.sort, ex.concretize(t, "vconcretize")), true
		},
		"vthorough": func(ex *Exec, fn *ssa.Function, a []Value) (Value, bool) {
			return ex.tc.Bool(ex.h.cfg.Tier == "thorough"), true
		},
		// vuf32(tag, d): an uninterpreted function float64 -> float32 (one fresh value per distinct argument term)
		"vuf32": func(ex *Exec, fn *ssa.Function, a []Value) (Value, bool) {
			tag, _ := concreteStr(a[0])
			d := a[1].(*Term)
			// name by order of first use on this path: term ids differ between workers, models travel between them
			key := fmt.Sprintf("%s_%d", tag, d.id)
			k, ok := ex.ufIdx[key]
			if !ok {
				k = len(ex.ufIdx)
				ex.ufIdx[key] = k
			}
			return ex.tc.Var(fmt.Sprintf("uf_%s_%d", tag, k), F32Sort), true
		},
		// vcallAnon(parent, args...): run the anonymous function of `parent` whose parameters match the
		// trailing arguments; its free variables are bound, by type, to the remaining arguments (zero otherwise).
		"vcallAnon": func(ex *Exec, fn *ssa.Function, a []Value) (Value, bool) {
			pname, _ := concreteStr(a[0])
			parent := ex.ld.findFunc(pname)
			if parent == nil {
				ex.inconclusive("vcallAnon: no function " + pname)
			}
			var vals []IfaceV
			if sl, ok := a[1].(SliceV); ok && sl.arr != nil {
				for _, e := range ex.sliceElems(sl) {
					vals = append(vals, e.(IfaceV))
				}
			}
			var target *ssa.Function
			var params []Value
			for _, af := range parent.AnonFuncs {
				if len(af.Params) == 0 || len(af.Params) > len(vals) {
					continue
				}
				tail := vals[len(vals)-len(af.Params):]
				ok := true
				for i, p := range af.Params {
					if tail[i].t == nil || !(types.Identical(tail[i].t, p.Type()) || types.AssignableTo(tail[i].t, p.Type())) {
						ok = false
					}
				}
				if ok {
					target = af
					for i, p := range af.Params {
						if _, isI := p.Type().Underlying().(*types.Interface); isI {
							params = append(params, tail[i])
						} else {
							params = append(params, tail[i].v)
						}
					}
					vals = vals[:len(vals)-len(af.Params)]
					break
				}
			}
			if target == nil {
				// no parameter match: a parameterless closure that captures a variable of every given type
				best := 0
				for _, af := range parent.AnonFuncs {
					if len(af.Params) != 0 {
						continue
					}
					n := 0
					for _, v := range vals {
						for _, fv := range af.FreeVars {
							if v.t != nil && types.Identical(v.t, fv.Type().(*types.Pointer).Elem()) {
								n++
								break
							}
						}
					}
					if n == len(vals) && len(af.FreeVars) > best {
						best, target = len(af.FreeVars), af
					}
				}
			}
			if target == nil {
				ex.inconclusive("vcallAnon: no anonymous function of " + pname + " takes these arguments")
			}
			fvs := make([]Value, len(target.FreeVars))
			for i, fv := range target.FreeVars {
				et := fv.Type().(*types.Pointer).Elem()
				c := ex.newCell(et)
				for _, v := range vals {
					if v.t != nil && types.Identical(v.t, et) {
						ex.storeCell(c, v.v)
					}
				}
				fvs[i] = PtrV{c: c}
			}
			ex.stubsSeen["vcallAnon: "+target.String()+" entered directly; captured variables bound by type, others zero"] = true
			ex.call(target, params, fvs)
			return nil, true
		},
		"vspawn": func(ex *Exec, fn *ssa.Function, a []Value) (Value, bool) {
			ex.threadsInit().spawn(ex, a[0].(FuncV), nil)
			return nil, true
		},
		"vspawnDaemon": func(ex *Exec, fn *ssa.Function, a []Value) (Value, bool) {
			ts := ex.threadsInit()
			ts.spawn(ex, a[0].(FuncV), nil)
			ts.threads[len(ts.threads)-1].daemon = true
			return nil, true
		},
		"vrunThreads": func(ex *Exec, fn *ssa.Function, a []Value) (Value, bool) {
			ex.threadsInit().run(ex)
			return nil, true
		},
		"vgate": func(ex *Exec, fn *ssa.Function, a []Value) (Value, bool) {
			if ex.threads != nil {
				op, _ := concreteStr(a[0])
				ex.threads.yieldPoint(ex, op, false)
			}
			return nil, true
		},
		"vregisterThread": func(ex *Exec, fn *ssa.Function, a []Value) (Value, bool) { return nil, true },
		"vyield": func(ex *Exec, fn *ssa.Function, a []Value) (Value, bool) {
			if ex.threads != nil {
				ex.threads.yieldPoint(ex, "yield", false)
			}
			return nil, true
		},
		"vwait": func(ex *Exec, fn *ssa.Function, a []Value) (Value, bool) {
			if ex.threads != nil {
				ex.threads.yieldPoint(ex, "wait", true)
			}
			return nil, true
		},
		// vexitThread: the calling interpreted thread ends here, silently (a background loop the harness does not need)
		"vexitThread": func(ex *Exec, fn *ssa.Function, a []Value) (Value, bool) {
			if ex.threads != nil && ex.threads.cur != nil && ex.threads.running {
				ex.stubsSeen["vexitThread: a background goroutine of the code under test was ended at its first sleep"] = true
				panic(threadKill{})
			}
			return nil, true
		},
		// vblock: the calling thread is not scheduled again until another step has changed memory
		"vblock": func(ex *Exec, fn *ssa.Function, a []Value) (Value, bool) {
			if ex.threads != nil {
				ex.threads.blockPoint(ex)
			}
			return nil, true
		},
		// vblockUntil(pred): the calling thread continues only when pred() holds
		"vblockUntil": func(ex *Exec, fn *ssa.Function, a []Value) (Value, bool) {
			if ex.threads != nil {
				ex.threads.blockUntil(ex, a[0])
			}
			return nil, true
		},
		"vthreadID": func(ex *Exec, fn *ssa.Function, a []Value) (Value, bool) {
			if ex.threads != nil && ex.threads.cur != nil && ex.threads.running {
				return ex.intConst(ex.threads.cur.id), true
			}
			return ex.intConst(-1), true
		},
		"vschedule": func(ex *Exec, fn *ssa.Function, a []Value) (Value, bool) {
			if ex.threads == nil {
				return ex.emptyStr, true
			}
			return ex.strConst(strings.Join(ex.threads.schedule, " ")), true
		},
		"vand": func(ex *Exec, fn *ssa.Function, a []Value) (Value, bool) {
			return ex.tc.And(a[0].(*Term), a[1].(*Term)), true
		},
		"vor": func(ex *Exec, fn *ssa.Function, a []Value) (Value, bool) {
			return ex.tc.Or(a[0].(*Term), a[1].(*Term)), true
		},
		"vimplies": func(ex *Exec, fn *ssa.Function, a []Value) (Value, bool) {
			return ex.tc.Implies(a[0].(*Term), a[1].(*Term)), true
		},
		"vfail": func(ex *Exec, fn *ssa.Function, a []Value) (Value, bool) {
			msg, _ := concreteStr(a[0])
			ex.inconclusive("harness: " + msg)
			return nil, true
		},
	}
}

// vassert checks cond on the current path. known (may be nil) delimits a listed known-finding class.
func (ex *Exec) vassert(id string, cond, known *Term, kid string) {
	ex.reached["assert:"+id]++
	tc := ex.tc
	if cond.op == OConst && cond.cval != 0 {
		return
	}
	neg := tc.Not(cond)
	if known != nil && !(known.op == OConst && known.cval == 0) {
		// counterexamples inside the known class
		r, m := ex.verdict(tc.And(neg, known))
		if r == "sat" {
			ex.reportViolationK(id, "", m, kid)
		}
		neg = tc.And(neg, tc.Not(known))
	}
	r, m := ex.verdict(neg)
	if r == "sat" {
		ex.reportViolation(id, "", m)
	}
	ex.assume(cond)
}

// verdict decides pc ∧ c with the longer verdict timeout; unknown/error end the path as inconclusive.
func (ex *Exec) verdict(c *Term) (string, Model) {
	if c.op == OConst {
		if c.cval == 0 {
			return "unsat", nil
		}
		// the assertion fails on every run of this path: it is a violation iff the path is feasible
		if ex.model != nil {
			return "sat", ex.model
		}
		if ex.solver == nil {
			return "sat", Model{}
		}
		switch r := ex.solver.Check(); r {
		case "sat":
			if m := ex.fetchModel(); m != nil {
				return "sat", m
			}
			ex.inconclusive("no model for a feasible failing path")
		case "unsat":
			return "unsat", nil
		default:
			ex.inconclusive("feasibility of a path on which an assertion fails: solver answered " + r)
		}
	}
	if ex.model != nil {
		if v, ok := ex.tc.Eval(c, ex.model, map[int]uint64{}); ok && v != 0 {
			return "sat", ex.model
		}
	}
	if ex.solver == nil {
		ex.inconclusive("assertion on symbolic value in concrete mode")
	}
	ex.solver.Push()
	ex.solver.Assert(c)
	r := ex.solver.Check()
	var m Model
	if r == "sat" {
		m = ex.fetchModel()
	}
	ex.solver.Pop()
	if r == "unknown" || r == "error" {
		ex.inconclusive("verdict query returned " + r)
	}
	return r, m
}

func writeJSON(path string, v interface{}) error {
	b, err := json.MarshalIndent(v, "", " ")
	if err != nil {
		return err
	}
	return os.WriteFile(path, append(b, '\n'), 0o644)
}
