package main

// Source of the runtime files injected next to the harness files.

const rtEngineSrc = `package PKG

// Engine build: every function below is intercepted by gosym.

func vnondetBool() bool           { return false }
func vnondetByte() byte           { return 0 }
func vnondetInt() int             { return 0 }
func vnondetInt64() int64         { return 0 }
func vnondetUint64() uint64       { return 0 }
func vnondetUint32() uint32       { return 0 }
func vnondetFloat64() float64     { return 0 }
func vnondetFloat32() float32     { return 0 }
func vnondetString(max int) string { return "" }
func vnondetStringN(n int) string { return "" }
func vchoose(n int) int           { return 0 }
func vsplit(n int) int            { return 0 }
func vassume(c bool)              {}
func vassert(id string, c bool)   {}
func vassertK(id string, c bool, known bool, kid string) {}
func vknown(id string) bool       { return false }
func vreach(tag string)           {}
func vobs(tag string, vals ...interface{}) {}
func vnative() bool               { return false }
func vconcretize(x int) int       { return x }
func vfail(msg string)            {}
func vthorough() bool             { return false }
func vspawn(f func())             {}
func vgate(op string)             {}
func vregisterThread(id int)      {}
func vcallAnon(parent string, args ...interface{}) {}
func vspawnDaemon(f func())       {}
func vrunThreads()                {}
func vyield()                     {}
func vwait()                      {}
func vthreadEnd()                 {}
func vexitThread()                {}
func vblock()                     {}
func vblockUntil(pred func() bool) {}
func vthreadID() int              { return -1 }
func vschedule() string           { return "" }
func vuf32(tag string, d float64) float32 { return float32(d) }
func vand(a, b bool) bool         { return a && b }
func vor(a, b bool) bool          { return a || b }
func vimplies(a, b bool) bool     { return !a || b }
`

const rtNativeSrc = `package PKG

// Native replay build: nondeterministic values come from the witness file.

import (
	"encoding/json"
	"fmt"
	"math"
	"os"
	"runtime"
	"strconv"
	"strings"
	"sync"
	"time"
)

type vWit struct {
	Kind string ` + "`json:\"kind\"`" + `
	Val  string ` + "`json:\"val\"`" + `
}

var vWitness []vWit
var vWitPos int
var vKnown map[string]bool

type vAssumeStop struct{}

func vLoadKnown() {
	vKnown = map[string]bool{}
	if kb, err := os.ReadFile(os.Getenv("VERIF_KNOWN")); err == nil {
		var ks []string
		json.Unmarshal(kb, &ks)
		for _, k := range ks {
			vKnown[k] = true
		}
	}
}

type vBatchItem struct {
	Harness string ` + "`json:\"harness\"`" + `
	Witness []vWit ` + "`json:\"witness\"`" + `
}

// vRunBatch replays every item of the batch file named by VERIF_BATCH.
func vRunBatch(reg map[string]func()) {
	b, err := os.ReadFile(os.Getenv("VERIF_BATCH"))
	if err != nil {
		panic("verif: cannot read batch: " + err.Error())
	}
	var items []vBatchItem
	if err := json.Unmarshal(b, &items); err != nil {
		panic("verif: bad batch: " + err.Error())
	}
	vLoadKnown()
	for i, it := range items {
		fmt.Println("VBEGIN", i, it.Harness)
		f := reg[it.Harness]
		if f == nil {
			fmt.Println("VEND nosuchharness")
			continue
		}
		vWitness, vWitPos = it.Witness, 0
		vLoadSchedule()
		vRun(it.Harness, f)
	}
}

func vnext(kind string) uint64 {
	for vWitPos < len(vWitness) && (vWitness[vWitPos].Kind == "sched" || vWitness[vWitPos].Kind == "schedule") {
		vWitPos++
	}
	if vWitPos >= len(vWitness) {
		fmt.Println("VDIVERGE witness exhausted at", kind)
		panic(vAssumeStop{})
	}
	w := vWitness[vWitPos]
	vWitPos++
	if w.Kind != kind {
		fmt.Println("VDIVERGE kind", w.Kind, "wanted", kind, "at", vWitPos-1)
		panic(vAssumeStop{})
	}
	if kind == "int" || kind == "int64" {
		v, _ := strconv.ParseInt(w.Val, 10, 64)
		return uint64(v)
	}
	v, _ := strconv.ParseUint(w.Val, 0, 64)
	return v
}

func vnondetBool() bool       { return vnext("bool") != 0 }
func vnondetByte() byte       { return byte(vnext("byte")) }
func vnondetInt() int         { return int(vnext("int")) }
func vnondetInt64() int64     { return int64(vnext("int64")) }
func vnondetUint64() uint64   { return vnext("uint64") }
func vnondetUint32() uint32   { return uint32(vnext("uint32")) }
func vnondetFloat64() float64 { return math.Float64frombits(vnext("float64")) }
func vnondetFloat32() float32 { return math.Float32frombits(uint32(vnext("float32"))) }
func vnondetString(max int) string {
	n := int(vnext("len"))
	return vnondetStringN(n)
}
func vnondetStringN(n int) string {
	b := make([]byte, n)
	for i := range b {
		b[i] = vnondetByte()
	}
	return string(b)
}
func vchoose(n int) int { return int(vnext("choose")) }
func vsplit(n int) int {
	v, _ := strconv.Atoi(os.Getenv("VERIF_SPLIT"))
	return v
}
func vassume(c bool) {
	if !c {
		fmt.Println("VASSUME-FAIL")
		panic(vAssumeStop{})
	}
}
func vassert(id string, c bool) {
	if !c {
		fmt.Println("VASSERT-FAIL " + id)
		panic(vAssumeStop{}) // the engine continues under the assumption that the assertion held
	}
}
func vassertK(id string, c bool, known bool, kid string) {
	if !c {
		if known {
			fmt.Println("VASSERT-FAIL " + id + " known=" + kid)
		} else {
			fmt.Println("VASSERT-FAIL " + id)
		}
		panic(vAssumeStop{})
	}
}
func vknown(id string) bool { return vKnown[id] }
func vreach(tag string)     { fmt.Println("VREACH " + tag) }
func vobs(tag string, vals ...interface{}) {
	s := "VOBS " + tag + "="
	for i, v := range vals {
		if i > 0 {
			s += ","
		}
		s += vfmt(v)
	}
	fmt.Println(s)
}
func vfmt(v interface{}) string {
	switch x := v.(type) {
	case string:
		return strconv.Quote(x)
	case []byte:
		s := "["
		for i, b := range x {
			if i > 0 {
				s += " "
			}
			s += strconv.Itoa(int(b))
		}
		return s + "]"
	case []string:
		s := "["
		for i, b := range x {
			if i > 0 {
				s += " "
			}
			s += strconv.Quote(b)
		}
		return s + "]"
	case error:
		if x == nil {
			return "<nil>"
		}
		return "&" + strconv.Quote(x.Error())
	case nil:
		return "<nil>"
	case float64:
		return strconv.FormatFloat(x, 'g', -1, 64)
	case float32:
		return strconv.FormatFloat(float64(x), 'g', -1, 32)
	case uint8:
		return strconv.Itoa(int(x))
	}
	return fmt.Sprint(v)
}
func vnative() bool         { return true }
func vconcretize(x int) int { return x }
func vfail(msg string)      { fmt.Println("VFAIL " + msg) }
func vthorough() bool       { return os.Getenv("VERIF_TIER") == "thorough" }

// thread mode, native side: real goroutines are forced through the engine's schedule. Every visible
// operation calls vgate(op); a goroutine passes its gate only when the next schedule entry is its own.
// The schedule ("T0:start T1:start T0:Lock ...") travels in the witness as an entry of kind "schedule".
var vThreads []func()

type vSchedEntry struct {
	thread int
	op     string
}

var (
	vSchedMu    sync.Mutex
	vSchedCond  = sync.NewCond(&vSchedMu)
	vSched      []vSchedEntry
	vSchedPos   int
	vSchedFree  bool // schedule exhausted or abandoned: everybody runs freely
	vSchedHolder = -1 // the thread that passed its gate last and has not reached its next gate yet
	vGoroutines = map[uint64]int{}
)

func vLoadSchedule() {
	vSchedMu.Lock()
	defer vSchedMu.Unlock()
	vSched, vSchedPos, vSchedFree, vSchedHolder = nil, 0, true, -1
	vGoroutines = map[uint64]int{}
	for _, w := range vWitness {
		if w.Kind != "schedule" {
			continue
		}
		for _, f := range strings.Fields(w.Val) {
			var t int
			var op string
			if i := strings.IndexByte(f, ':'); i > 1 {
				t, _ = strconv.Atoi(f[1:i])
				op = f[i+1:]
			}
			vSched = append(vSched, vSchedEntry{t, op})
		}
		vSchedFree = len(vSched) == 0
	}
}

// vScheduleStarts lists the threads in the order the schedule starts them.
func vScheduleStarts() []int {
	vSchedMu.Lock()
	defer vSchedMu.Unlock()
	var out []int
	for _, e := range vSched {
		if e.op == "start" {
			out = append(out, e.thread)
		}
	}
	return out
}

func vgid() uint64 {
	var buf [64]byte
	n := runtime.Stack(buf[:], false)
	f := strings.Fields(string(buf[:n]))
	id, _ := strconv.ParseUint(f[1], 10, 64)
	return id
}

func vregisterThread(id int) {
	vSchedMu.Lock()
	vGoroutines[vgid()] = id
	vSchedMu.Unlock()
}

// vgateAs blocks thread t at operation op until the schedule says it is its turn.
func vgateAs(t int, op string) {
	vSchedMu.Lock()
	defer vSchedMu.Unlock()
	deadline := time.Now().Add(20 * time.Second)
	// exactly one scheduled thread runs at a time (as in the engine): a thread keeps the token from the
	// gate it passed until it arrives at its next gate, so the operation behind a gate is complete
	// before any other thread's next operation starts
	if vSchedHolder == t {
		vSchedHolder = -1
		vSchedCond.Broadcast()
	}
	for !vSchedFree {
		if vSchedPos >= len(vSched) {
			vSchedFree = true
			vSchedCond.Broadcast()
			break
		}
		e := vSched[vSchedPos]
		if e.thread == t && vSchedHolder == -1 {
			if e.op != op && !(e.op == "start") {
				fmt.Println("VDIVERGE schedule expects", e.op, "but thread", t, "is at", op)
				vSchedFree = true
				vSchedCond.Broadcast()
				break
			}
			vSchedPos++
			vSchedHolder = t
			vSchedCond.Broadcast()
			return
		}
		if time.Now().After(deadline) {
			fmt.Println("VDIVERGE schedule stuck at", vSchedPos, "waiting for thread", e.thread, e.op, "while thread", t, "is at", op)
			vSchedFree = true
			vSchedCond.Broadcast()
			break
		}
		// wake up periodically to notice the deadline
		go func() { time.Sleep(50 * time.Millisecond); vSchedCond.Broadcast() }()
		vSchedCond.Wait()
	}
}

func vgate(op string) {
	vSchedMu.Lock()
	t, ok := vGoroutines[vgid()]
	free := vSchedFree
	vSchedMu.Unlock()
	if !ok || free {
		return
	}
	vgateAs(t, op)
}

// vthreadEnd: the calling goroutine's thread has no further visible operation (gives the token back).
func vthreadEnd() {
	vSchedMu.Lock()
	if t, ok := vGoroutines[vgid()]; ok && vSchedHolder == t {
		vSchedHolder = -1
		vSchedCond.Broadcast()
	}
	vSchedMu.Unlock()
}

func vspawn(f func())       { vThreads = append(vThreads, f) }
func vspawnDaemon(f func()) {}
func vrunThreads() {
	ts := vThreads
	vThreads = nil
	vSchedMu.Lock()
	forced := !vSchedFree && len(vSched) > 0
	vSchedMu.Unlock()
	if !forced {
		for _, f := range ts {
			f()
		}
		return
	}
	// forced schedule: one real goroutine per thread, each passing its gates in schedule order
	var wg sync.WaitGroup
	var pmu sync.Mutex
	var panicked interface{}
	for i, f := range ts {
		wg.Add(1)
		go func(i int, f func()) {
			defer wg.Done()
			defer func() {
				if r := recover(); r != nil {
					pmu.Lock()
					if panicked == nil {
						panicked = r
					}
					pmu.Unlock()
					// let the others finish freely
					vSchedMu.Lock()
					vSchedFree = true
					vSchedCond.Broadcast()
					vSchedMu.Unlock()
				}
			}()
			vregisterThread(i)
			vgateAs(i, "start")
			defer vthreadEnd()
			f()
		}(i, f)
	}
	done := make(chan struct{})
	go func() { wg.Wait(); close(done) }()
	select {
	case <-done:
	case <-time.After(30 * time.Second):
		fmt.Println("VDIVERGE forced schedule did not finish")
	}
	if panicked != nil {
		panic(panicked)
	}
}
func vexitThread()      { runtime.Goexit() }
func vblock()           { vgate("block"); time.Sleep(time.Millisecond) }
func vblockUntil(pred func() bool) {
	vgate("block")
	for i := 0; i < 5000 && !pred(); i++ {
		time.Sleep(time.Millisecond)
	}
}
func vyield()           { vgate("yield") }
func vwait()            { vgate("wait"); runtime.Gosched() }
func vthreadID() int    { return -1 }
func vschedule() string { return "" }
func vcallAnon(parent string, args ...interface{}) {
	fmt.Println("VDIVERGE vcallAnon is engine-only")
	panic(vAssumeStop{})
}
func vuf32(tag string, d float64) float32 { return float32(d) }
func vand(a, b bool) bool   { return a && b }
func vor(a, b bool) bool    { return a || b }
func vimplies(a, b bool) bool { return !a || b }

// vRun runs one harness under the loaded witness and reports how it ended.
func vRun(name string, f func()) {
	defer func() {
		if r := recover(); r != nil {
			if _, ok := r.(vAssumeStop); ok {
				fmt.Println("VEND stop")
				return
			}
			fmt.Printf("VPANIC %v\n", r)
			fmt.Println("VEND panic")
			return
		}
		fmt.Println("VEND done")
	}()
	f()
}
`
