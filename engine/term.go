package main

// Hash-consed SMT terms with constant folding, SMT-LIB2 printing and a concrete
// evaluator (used for model-based feasibility shortcuts, witness extraction and
// the interpreter mode of the engine).

import (
	"fmt"
	"math"
	"math/bits"
	"strconv"
	"strings"
)

type SortKind uint8

const (
	SBool SortKind = iota
	SBV
	SF32
	SF64
)

type Sort struct {
	K SortKind
	W int // bit width for SBV
}

var (
	BoolSort = Sort{SBool, 0}
	F32Sort  = Sort{SF32, 32}
	F64Sort  = Sort{SF64, 64}
)

func BV(w int) Sort { return Sort{SBV, w} }

func (s Sort) SMT() string {
	switch s.K {
	case SBool:
		return "Bool"
	case SBV:
		return fmt.Sprintf("(_ BitVec %d)", s.W)
	case SF32:
		return "(_ FloatingPoint 8 24)"
	case SF64:
		return "(_ FloatingPoint 11 53)"
	}
	return "?"
}

func (s Sort) bitWidth() int {
	switch s.K {
	case SBool:
		return 1
	case SF32:
		return 32
	case SF64:
		return 64
	}
	return s.W
}

type Op uint8

const (
	OConst Op = iota
	OVar
	ONot
	OAnd
	OOr
	OIte
	OEq
	// bit-vector
	OAdd
	OSub
	OMul
	OUDiv
	OSDiv
	OURem
	OSRem
	OBAnd
	OBOr
	OBXor
	OShl
	OLShr
	OAShr
	ONeg
	OBNot
	OUlt
	OUle
	OSlt
	OSle
	OExtract // hi, lo
	OZExt    // to sort width
	OSExt
	OConcat
	// floating point
	OFAdd
	OFSub
	OFMul
	OFDiv
	OFNeg
	OFAbs
	OFLt
	OFLe
	OFEq // IEEE equality
	OFIsNaN
	OFIsInf
	OFIsNeg
	OFToF  // float -> float (RNE)
	OSToF  // signed bv -> float
	OUToF  // unsigned bv -> float
	OFToS  // float -> signed bv (RTZ)
	OFToU  // float -> unsigned bv (RTZ)
	OBToF  // reinterpret bits as float
	OFSqrt // RNE
	OFRoundRTZ
	OFRoundRTN // floor
	OFRoundRTP // ceil
)

var opNames = map[Op]string{
	ONot: "not", OAnd: "and", OOr: "or", OIte: "ite", OEq: "=",
	OAdd: "bvadd", OSub: "bvsub", OMul: "bvmul", OUDiv: "bvudiv", OSDiv: "bvsdiv", OURem: "bvurem", OSRem: "bvsrem",
	OBAnd: "bvand", OBOr: "bvor", OBXor: "bvxor", OShl: "bvshl", OLShr: "bvlshr", OAShr: "bvashr", ONeg: "bvneg", OBNot: "bvnot",
	OUlt: "bvult", OUle: "bvule", OSlt: "bvslt", OSle: "bvsle", OConcat: "concat",
	OFNeg: "fp.neg", OFAbs: "fp.abs", OFLt: "fp.lt", OFLe: "fp.leq", OFEq: "fp.eq", OFIsNaN: "fp.isNaN", OFIsInf: "fp.isInfinite", OFIsNeg: "fp.isNegative",
}

type Term struct {
	id   int
	op   Op
	sort Sort
	args []*Term
	cval uint64 // OConst: value (bool 0/1, bv masked, float bits)
	name string // OVar
	hi   int    // OExtract
	lo   int
}

func (t *Term) IsConst() bool { return t.op == OConst }
func (t *Term) Sort() Sort    { return t.sort }

// TermCtx is a per-worker hash-consing table.
type TermCtx struct {
	tab    map[string]*Term
	nextID int
	vars   map[string]*Term
	True   *Term
	False  *Term
}

func NewTermCtx() *TermCtx {
	c := &TermCtx{tab: map[string]*Term{}, vars: map[string]*Term{}}
	c.True = c.Const(BoolSort, 1)
	c.False = c.Const(BoolSort, 0)
	return c
}

func mask(w int) uint64 {
	if w >= 64 {
		return ^uint64(0)
	}
	return (uint64(1) << uint(w)) - 1
}

func (c *TermCtx) intern(t *Term) *Term {
	var sb strings.Builder
	sb.WriteByte(byte(t.op) + 33)
	sb.WriteByte(byte(t.sort.K) + 48)
	sb.WriteString(strconv.Itoa(t.sort.W))
	switch t.op {
	case OConst:
		sb.WriteByte(':')
		sb.WriteString(strconv.FormatUint(t.cval, 16))
	case OVar:
		sb.WriteByte(':')
		sb.WriteString(t.name)
	case OExtract:
		sb.WriteByte(':')
		sb.WriteString(strconv.Itoa(t.hi))
		sb.WriteByte(',')
		sb.WriteString(strconv.Itoa(t.lo))
	}
	for _, a := range t.args {
		sb.WriteByte(' ')
		sb.WriteString(strconv.Itoa(a.id))
	}
	k := sb.String()
	if e, ok := c.tab[k]; ok {
		return e
	}
	c.nextID++
	t.id = c.nextID
	c.tab[k] = t
	return t
}

func (c *TermCtx) Const(s Sort, v uint64) *Term {
	switch s.K {
	case SBool:
		if v != 0 {
			v = 1
		}
	case SBV:
		v &= mask(s.W)
	case SF32:
		v &= 0xffffffff
		if f := math.Float32frombits(uint32(v)); f != f {
			v = 0x7fc00000 // canonical NaN (SMT has a single NaN)
		}
	case SF64:
		if f := math.Float64frombits(v); f != f {
			v = 0x7ff8000000000000
		}
	}
	return c.intern(&Term{op: OConst, sort: s, cval: v})
}

func (c *TermCtx) Bool(b bool) *Term {
	if b {
		return c.True
	}
	return c.False
}

func (c *TermCtx) Var(name string, s Sort) *Term {
	if v, ok := c.vars[name]; ok {
		if v.sort != s {
			panic("var sort mismatch: " + name)
		}
		return v
	}
	v := c.intern(&Term{op: OVar, sort: s, name: name})
	c.vars[name] = v
	return v
}

func (c *TermCtx) F64(f float64) *Term { return c.Const(F64Sort, math.Float64bits(f)) }
func (c *TermCtx) F32(f float32) *Term { return c.Const(F32Sort, uint64(math.Float32bits(f))) }

func sext(v uint64, w int) int64 {
	if w >= 64 {
		return int64(v)
	}
	sh := uint(64 - w)
	return int64(v<<sh) >> sh
}

func allConst(args []*Term) bool {
	for _, a := range args {
		if a.op != OConst {
			return false
		}
	}
	return true
}

// foldOp computes op over constant arguments. ok=false if not foldable.
func foldOp(op Op, s Sort, hi, lo int, a []*Term) (uint64, bool) {
	v := func(i int) uint64 { return a[i].cval }
	b2u := func(b bool) uint64 {
		if b {
			return 1
		}
		return 0
	}
	w := 0
	if len(a) > 0 {
		w = a[0].sort.bitWidth()
	}
	ff := func(i int) float64 {
		if a[i].sort.K == SF32 {
			return float64(math.Float32frombits(uint32(a[i].cval)))
		}
		return math.Float64frombits(a[i].cval)
	}
	mk := func(f float64) uint64 {
		if s.K == SF32 {
			return uint64(math.Float32bits(float32(f)))
		}
		return math.Float64bits(f)
	}
	// float arithmetic must be done in the operand precision
	fbin := func(f32 func(x, y float32) float32, f64 func(x, y float64) float64) uint64 {
		if s.K == SF32 {
			return uint64(math.Float32bits(f32(math.Float32frombits(uint32(v(0))), math.Float32frombits(uint32(v(1))))))
		}
		return math.Float64bits(f64(math.Float64frombits(v(0)), math.Float64frombits(v(1))))
	}
	switch op {
	case ONot:
		return 1 - v(0), true
	case OAnd:
		r := uint64(1)
		for i := range a {
			r &= v(i)
		}
		return r, true
	case OOr:
		r := uint64(0)
		for i := range a {
			r |= v(i)
		}
		return r, true
	case OIte:
		if v(0) != 0 {
			return v(1), true
		}
		return v(2), true
	case OEq:
		if a[0].sort.K == SF32 || a[0].sort.K == SF64 {
			return b2u(v(0) == v(1)), true // structural equality; NaN canonical
		}
		return b2u(v(0) == v(1)), true
	case OAdd:
		return v(0) + v(1), true
	case OSub:
		return v(0) - v(1), true
	case OMul:
		return v(0) * v(1), true
	case OUDiv:
		if v(1) == 0 {
			return mask(w), true
		}
		return v(0) / v(1), true
	case OURem:
		if v(1) == 0 {
			return v(0), true
		}
		return v(0) % v(1), true
	case OSDiv:
		x, y := sext(v(0), w), sext(v(1), w)
		if y == 0 {
			if x < 0 {
				return 1, true
			}
			return mask(w), true
		}
		if y == -1 {
			return uint64(-x), true
		}
		return uint64(x / y), true
	case OSRem:
		x, y := sext(v(0), w), sext(v(1), w)
		if y == 0 {
			return v(0), true
		}
		if y == -1 {
			return 0, true
		}
		return uint64(x % y), true
	case OBAnd:
		return v(0) & v(1), true
	case OBOr:
		return v(0) | v(1), true
	case OBXor:
		return v(0) ^ v(1), true
	case OShl:
		if v(1) >= uint64(w) {
			return 0, true
		}
		return v(0) << v(1), true
	case OLShr:
		if v(1) >= uint64(w) {
			return 0, true
		}
		return v(0) >> v(1), true
	case OAShr:
		x := sext(v(0), w)
		sh := v(1)
		if sh >= uint64(w) {
			sh = uint64(w - 1)
		}
		return uint64(x >> sh), true
	case ONeg:
		return -v(0), true
	case OBNot:
		return ^v(0), true
	case OUlt:
		return b2u(v(0) < v(1)), true
	case OUle:
		return b2u(v(0) <= v(1)), true
	case OSlt:
		return b2u(sext(v(0), w) < sext(v(1), w)), true
	case OSle:
		return b2u(sext(v(0), w) <= sext(v(1), w)), true
	case OExtract:
		return (v(0) >> uint(lo)) & mask(hi-lo+1), true
	case OZExt:
		return v(0), true
	case OSExt:
		return uint64(sext(v(0), w)), true
	case OConcat:
		return v(0)<<uint(a[1].sort.W) | v(1), true
	case OFAdd:
		return fbin(func(x, y float32) float32 { return x + y }, func(x, y float64) float64 { return x + y }), true
	case OFSub:
		return fbin(func(x, y float32) float32 { return x - y }, func(x, y float64) float64 { return x - y }), true
	case OFMul:
		return fbin(func(x, y float32) float32 { return x * y }, func(x, y float64) float64 { return x * y }), true
	case OFDiv:
		return fbin(func(x, y float32) float32 { return x / y }, func(x, y float64) float64 { return x / y }), true
	case OFNeg:
		if s.K == SF32 {
			return v(0) ^ 0x80000000, true
		}
		return v(0) ^ (1 << 63), true
	case OFAbs:
		if s.K == SF32 {
			return v(0) &^ 0x80000000, true
		}
		return v(0) &^ (1 << 63), true
	case OFLt:
		return b2u(ff(0) < ff(1)), true
	case OFLe:
		return b2u(ff(0) <= ff(1)), true
	case OFEq:
		return b2u(ff(0) == ff(1)), true
	case OFIsNaN:
		return b2u(ff(0) != ff(0)), true
	case OFIsInf:
		return b2u(math.IsInf(ff(0), 0)), true
	case OFIsNeg:
		return b2u(math.Signbit(ff(0)) && ff(0) == ff(0)), true
	case OFToF:
		return mk(ff(0)), true
	case OSToF:
		x := sext(v(0), w)
		if s.K == SF32 {
			return uint64(math.Float32bits(float32(x))), true
		}
		return math.Float64bits(float64(x)), true
	case OUToF:
		if s.K == SF32 {
			return uint64(math.Float32bits(float32(v(0)))), true
		}
		return math.Float64bits(float64(v(0))), true
	case OFToS:
		f := ff(0)
		if f != f || math.IsInf(f, 0) {
			return 0, false
		}
		t := math.Trunc(f)
		lim := math.Ldexp(1, s.W-1)
		if t >= lim || t < -lim {
			return 0, false // implementation-defined in Go, unspecified in SMT
		}
		return uint64(int64(t)), true
	case OFToU:
		f := ff(0)
		if f != f || math.IsInf(f, 0) {
			return 0, false
		}
		t := math.Trunc(f)
		if t < 0 || t >= math.Ldexp(1, s.W) {
			return 0, false
		}
		return uint64(t), true
	case OBToF:
		return v(0), true
	case OFSqrt:
		if s.K == SF32 {
			return uint64(math.Float32bits(float32(math.Sqrt(ff(0))))), true
		}
		return mk(math.Sqrt(ff(0))), true
	case OFRoundRTZ:
		return mk(math.Trunc(ff(0))), true
	case OFRoundRTN:
		return mk(math.Floor(ff(0))), true
	case OFRoundRTP:
		return mk(math.Ceil(ff(0))), true
	}
	return 0, false
}

func (c *TermCtx) mk(op Op, s Sort, args ...*Term) *Term {
	if allConst(args) {
		if v, ok := foldOp(op, s, 0, 0, args); ok {
			return c.Const(s, v)
		}
	}
	return c.intern(&Term{op: op, sort: s, args: args})
}

// ---- boolean constructors with local simplification ----

func (c *TermCtx) Not(a *Term) *Term {
	if a.op == OConst {
		return c.Bool(a.cval == 0)
	}
	if a.op == ONot {
		return a.args[0]
	}
	return c.intern(&Term{op: ONot, sort: BoolSort, args: []*Term{a}})
}

func (c *TermCtx) And(as ...*Term) *Term {
	out := make([]*Term, 0, len(as))
	for _, a := range as {
		if a.op == OConst {
			if a.cval == 0 {
				return c.False
			}
			continue
		}
		if a.op == OAnd {
			out = append(out, a.args...)
			continue
		}
		out = append(out, a)
	}
	// dedupe, detect x & !x
	seen := map[int]bool{}
	res := out[:0]
	for _, a := range out {
		if seen[a.id] {
			continue
		}
		seen[a.id] = true
		res = append(res, a)
	}
	for _, a := range res {
		if a.op == ONot && seen[a.args[0].id] {
			return c.False
		}
	}
	switch len(res) {
	case 0:
		return c.True
	case 1:
		return res[0]
	}
	return c.intern(&Term{op: OAnd, sort: BoolSort, args: append([]*Term(nil), res...)})
}

func (c *TermCtx) Or(as ...*Term) *Term {
	out := make([]*Term, 0, len(as))
	for _, a := range as {
		if a.op == OConst {
			if a.cval != 0 {
				return c.True
			}
			continue
		}
		if a.op == OOr {
			out = append(out, a.args...)
			continue
		}
		out = append(out, a)
	}
	seen := map[int]bool{}
	res := out[:0]
	for _, a := range out {
		if seen[a.id] {
			continue
		}
		seen[a.id] = true
		res = append(res, a)
	}
	for _, a := range res {
		if a.op == ONot && seen[a.args[0].id] {
			return c.True
		}
	}
	switch len(res) {
	case 0:
		return c.False
	case 1:
		return res[0]
	}
	return c.intern(&Term{op: OOr, sort: BoolSort, args: append([]*Term(nil), res...)})
}

func (c *TermCtx) Implies(a, b *Term) *Term { return c.Or(c.Not(a), b) }

func (c *TermCtx) Ite(g, a, b *Term) *Term {
	if g.op == OConst {
		if g.cval != 0 {
			return a
		}
		return b
	}
	if a == b {
		return a
	}
	if a.sort.K == SBool {
		if a.op == OConst && b.op == OConst {
			if a.cval != 0 {
				return g
			}
			return c.Not(g)
		}
		if a.op == OConst {
			if a.cval != 0 {
				return c.Or(g, b)
			}
			return c.And(c.Not(g), b)
		}
		if b.op == OConst {
			if b.cval != 0 {
				return c.Or(c.Not(g), a)
			}
			return c.And(g, a)
		}
	}
	return c.intern(&Term{op: OIte, sort: a.sort, args: []*Term{g, a, b}})
}

func (c *TermCtx) Eq(a, b *Term) *Term {
	if a == b {
		// note: for floats this is SMT structural equality (NaN = NaN); Go's == on floats uses FEq
		return c.True
	}
	if a.sort != b.sort {
		panic(fmt.Sprintf("Eq sort mismatch %v %v", a.sort, b.sort))
	}
	if a.op == OConst && b.op == OConst {
		return c.Bool(a.cval == b.cval)
	}
	if a.sort.K == SBool {
		if a.op == OConst {
			if a.cval != 0 {
				return b
			}
			return c.Not(b)
		}
		if b.op == OConst {
			if b.cval != 0 {
				return a
			}
			return c.Not(a)
		}
	}
	// ite(g, c1, c2) == c3 with constants
	if b.op == OConst && a.op == OIte && a.args[1].op == OConst && a.args[2].op == OConst {
		t1 := a.args[1].cval == b.cval
		t2 := a.args[2].cval == b.cval
		switch {
		case t1 && t2:
			return c.True
		case t1:
			return a.args[0]
		case t2:
			return c.Not(a.args[0])
		default:
			return c.False
		}
	}
	if a.op == OConst && b.op == OIte {
		return c.Eq(b, a)
	}
	// zext(x) == const  ->  x == const' or false
	if b.op == OConst && a.op == OZExt {
		iw := a.args[0].sort.W
		if b.cval>>uint(iw) != 0 && iw < 64 {
			return c.False
		}
		return c.Eq(a.args[0], c.Const(a.args[0].sort, b.cval))
	}
	if a.op == OConst && b.op == OZExt {
		return c.Eq(b, a)
	}
	if a.id > b.id {
		a, b = b, a
	}
	return c.intern(&Term{op: OEq, sort: BoolSort, args: []*Term{a, b}})
}

// ---- bit-vector constructors ----

func (c *TermCtx) BinBV(op Op, a, b *Term) *Term {
	if a.sort != b.sort {
		panic(fmt.Sprintf("BinBV sort mismatch %v %v op %d", a.sort, b.sort, op))
	}
	s := a.sort
	if a.op == OConst && b.op == OConst {
		if v, ok := foldOp(op, s, 0, 0, []*Term{a, b}); ok {
			return c.Const(s, v)
		}
	}
	switch op {
	case OAdd:
		if a.op == OConst && a.cval == 0 {
			return b
		}
		if b.op == OConst && b.cval == 0 {
			return a
		}
	case OSub:
		if b.op == OConst && b.cval == 0 {
			return a
		}
		if a == b {
			return c.Const(s, 0)
		}
	case OMul:
		if a.op == OConst && a.cval == 1 {
			return b
		}
		if b.op == OConst && b.cval == 1 {
			return a
		}
		if (a.op == OConst && a.cval == 0) || (b.op == OConst && b.cval == 0) {
			return c.Const(s, 0)
		}
	case OBAnd:
		if a == b {
			return a
		}
		if (a.op == OConst && a.cval == 0) || (b.op == OConst && b.cval == 0) {
			return c.Const(s, 0)
		}
		if a.op == OConst && a.cval == mask(s.W) {
			return b
		}
		if b.op == OConst && b.cval == mask(s.W) {
			return a
		}
	case OBOr:
		if a == b {
			return a
		}
		if a.op == OConst && a.cval == 0 {
			return b
		}
		if b.op == OConst && b.cval == 0 {
			return a
		}
	case OBXor:
		if a == b {
			return c.Const(s, 0)
		}
		if a.op == OConst && a.cval == 0 {
			return b
		}
		if b.op == OConst && b.cval == 0 {
			return a
		}
	case OShl, OLShr, OAShr:
		if b.op == OConst && b.cval == 0 {
			return a
		}
	}
	return c.intern(&Term{op: op, sort: s, args: []*Term{a, b}})
}

func (c *TermCtx) CmpBV(op Op, a, b *Term) *Term {
	if a.sort != b.sort {
		panic(fmt.Sprintf("CmpBV sort mismatch %v %v", a.sort, b.sort))
	}
	if a.op == OConst && b.op == OConst {
		v, _ := foldOp(op, BoolSort, 0, 0, []*Term{a, b})
		return c.Bool(v != 0)
	}
	if a == b {
		return c.Bool(op == OUle || op == OSle)
	}
	// unsigned comparisons against zext'd bytes with constants out of range
	if op == OUlt || op == OUle {
		if b.op == OConst && a.op == OZExt && a.args[0].sort.W < 64 && b.cval > mask(a.args[0].sort.W) {
			return c.True
		}
		if a.op == OConst && b.op == OZExt && b.args[0].sort.W < 64 && a.cval > mask(b.args[0].sort.W) {
			return c.False
		}
		if op == OUlt && b.op == OConst && b.cval == 0 {
			return c.False
		}
		if op == OUle && a.op == OConst && a.cval == 0 {
			return c.True
		}
	}
	return c.intern(&Term{op: op, sort: BoolSort, args: []*Term{a, b}})
}

func (c *TermCtx) UnBV(op Op, a *Term) *Term {
	if a.op == OConst {
		v, _ := foldOp(op, a.sort, 0, 0, []*Term{a})
		return c.Const(a.sort, v)
	}
	if a.op == op {
		return a.args[0]
	}
	return c.intern(&Term{op: op, sort: a.sort, args: []*Term{a}})
}

func (c *TermCtx) Extract(a *Term, hi, lo int) *Term {
	if lo == 0 && hi == a.sort.W-1 {
		return a
	}
	if a.op == OConst {
		v, _ := foldOp(OExtract, BV(hi-lo+1), hi, lo, []*Term{a})
		return c.Const(BV(hi-lo+1), v)
	}
	if (a.op == OZExt || a.op == OSExt) && lo == 0 {
		iw := a.args[0].sort.W
		if hi+1 == iw {
			return a.args[0]
		}
		if hi+1 < iw {
			return c.Extract(a.args[0], hi, lo)
		}
		if a.op == OZExt {
			return c.ZExt(a.args[0], hi+1)
		}
		return c.SExt(a.args[0], hi+1)
	}
	return c.intern(&Term{op: OExtract, sort: BV(hi - lo + 1), args: []*Term{a}, hi: hi, lo: lo})
}

func (c *TermCtx) ZExt(a *Term, w int) *Term {
	if a.sort.W == w {
		return a
	}
	if a.sort.W > w {
		return c.Extract(a, w-1, 0)
	}
	if a.op == OConst {
		return c.Const(BV(w), a.cval)
	}
	if a.op == OZExt {
		return c.ZExt(a.args[0], w)
	}
	return c.intern(&Term{op: OZExt, sort: BV(w), args: []*Term{a}})
}

func (c *TermCtx) SExt(a *Term, w int) *Term {
	if a.sort.W == w {
		return a
	}
	if a.sort.W > w {
		return c.Extract(a, w-1, 0)
	}
	if a.op == OConst {
		return c.Const(BV(w), uint64(sext(a.cval, a.sort.W)))
	}
	if a.op == OZExt {
		return c.ZExt(a.args[0], w) // zext then sext = zext
	}
	return c.intern(&Term{op: OSExt, sort: BV(w), args: []*Term{a}})
}

func (c *TermCtx) Concat(a, b *Term) *Term {
	s := BV(a.sort.W + b.sort.W)
	if a.op == OConst && b.op == OConst {
		return c.Const(s, a.cval<<uint(b.sort.W)|b.cval)
	}
	return c.intern(&Term{op: OConcat, sort: s, args: []*Term{a, b}})
}

// ---- floating point ----

func (c *TermCtx) FBin(op Op, a, b *Term) *Term {
	if a.sort != b.sort {
		panic("FBin sort mismatch")
	}
	return c.mk(op, a.sort, a, b)
}
func (c *TermCtx) FCmp(op Op, a, b *Term) *Term {
	if a.sort != b.sort {
		panic("FCmp sort mismatch")
	}
	// widening float32 -> float64 is exact and order preserving: compare the narrow values instead
	if a.sort.K == SF64 {
		na, nb := narrowF32(c, a), narrowF32(c, b)
		if na != nil && nb != nil {
			a, b = na, nb
		}
	}
	if a == b && op == OFLt {
		return c.False // x < x is false for every float, NaN included
	}
	return c.mk(op, BoolSort, a, b)
}
func (c *TermCtx) FUn(op Op, a *Term) *Term {
	s := a.sort
	if op == OFIsNaN || op == OFIsInf || op == OFIsNeg {
		s = BoolSort
	}
	return c.mk(op, s, a)
}
func (c *TermCtx) Conv(op Op, a *Term, to Sort) *Term {
	// float32(float64(x)) == x for x float32 (widening is exact)
	if op == OFToF && to.K == SF32 && a.op == OFToF && a.args[0].sort.K == SF32 {
		return a.args[0]
	}
	if op == OFToF && a.sort == to {
		return a
	}
	return c.mk(op, to, a)
}

// ---- printing ----

func (t *Term) constSMT() string {
	switch t.sort.K {
	case SBool:
		if t.cval != 0 {
			return "true"
		}
		return "false"
	case SBV:
		if t.sort.W%4 == 0 {
			return fmt.Sprintf("#x%0*x", t.sort.W/4, t.cval)
		}
		return fmt.Sprintf("#b%0*b", t.sort.W, t.cval)
	case SF32:
		b := uint32(t.cval)
		return fmt.Sprintf("(fp #b%b #b%08b #b%023b)", b>>31, (b>>23)&0xff, b&0x7fffff)
	case SF64:
		b := t.cval
		return fmt.Sprintf("(fp #b%b #b%011b #b%052b)", b>>63, (b>>52)&0x7ff, b&((1<<52)-1))
	}
	return "?"
}

func fpParams(s Sort) string {
	if s.K == SF32 {
		return "8 24"
	}
	return "11 53"
}

// headSMT prints the operator application with argument names supplied by ref.
func (t *Term) headSMT(ref func(*Term) string) string {
	args := make([]string, len(t.args))
	for i, a := range t.args {
		args[i] = ref(a)
	}
	j := strings.Join(args, " ")
	switch t.op {
	case OConst:
		return t.constSMT()
	case OVar:
		return t.name
	case OExtract:
		return fmt.Sprintf("((_ extract %d %d) %s)", t.hi, t.lo, j)
	case OZExt:
		return fmt.Sprintf("((_ zero_extend %d) %s)", t.sort.W-t.args[0].sort.W, j)
	case OSExt:
		return fmt.Sprintf("((_ sign_extend %d) %s)", t.sort.W-t.args[0].sort.W, j)
	case OFAdd:
		return "(fp.add RNE " + j + ")"
	case OFSub:
		return "(fp.sub RNE " + j + ")"
	case OFMul:
		return "(fp.mul RNE " + j + ")"
	case OFDiv:
		return "(fp.div RNE " + j + ")"
	case OFSqrt:
		return "(fp.sqrt RNE " + j + ")"
	case OFRoundRTZ:
		return "(fp.roundToIntegral RTZ " + j + ")"
	case OFRoundRTN:
		return "(fp.roundToIntegral RTN " + j + ")"
	case OFRoundRTP:
		return "(fp.roundToIntegral RTP " + j + ")"
	case OFToF, OSToF:
		return fmt.Sprintf("((_ to_fp %s) RNE %s)", fpParams(t.sort), j)
	case OUToF:
		return fmt.Sprintf("((_ to_fp_unsigned %s) RNE %s)", fpParams(t.sort), j)
	case OBToF:
		return fmt.Sprintf("((_ to_fp %s) %s)", fpParams(t.sort), j)
	case OFToS:
		return fmt.Sprintf("((_ fp.to_sbv %d) RTZ %s)", t.sort.W, j)
	case OFToU:
		return fmt.Sprintf("((_ fp.to_ubv %d) RTZ %s)", t.sort.W, j)
	}
	n, ok := opNames[t.op]
	if !ok {
		panic(fmt.Sprintf("no smt name for op %d", t.op))
	}
	return "(" + n + " " + j + ")"
}

// String prints a term fully inlined (debug; may be exponential on DAGs).
func (t *Term) String() string {
	var ref func(*Term) string
	ref = func(x *Term) string { return x.headSMT(ref) }
	return ref(t)
}

// ---- evaluation under a model ----

type Model map[string]uint64

// Eval evaluates t under m; variables absent from m read as 0.
func (c *TermCtx) Eval(t *Term, m Model, memo map[int]uint64) (uint64, bool) {
	if t.op == OConst {
		return t.cval, true
	}
	if v, ok := memo[t.id]; ok {
		return v, true
	}
	var r uint64
	switch t.op {
	case OVar:
		r = m[t.name]
		if t.sort.K == SBV {
			r &= mask(t.sort.W)
		}
	case OIte:
		g, ok := c.Eval(t.args[0], m, memo)
		if !ok {
			return 0, false
		}
		var ok2 bool
		if g != 0 {
			r, ok2 = c.Eval(t.args[1], m, memo)
		} else {
			r, ok2 = c.Eval(t.args[2], m, memo)
		}
		if !ok2 {
			return 0, false
		}
	default:
		cs := make([]*Term, len(t.args))
		for i, a := range t.args {
			v, ok := c.Eval(a, m, memo)
			if !ok {
				return 0, false
			}
			cs[i] = &Term{op: OConst, sort: a.sort, cval: v}
		}
		v, ok := foldOp(t.op, t.sort, t.hi, t.lo, cs)
		if !ok {
			return 0, false
		}
		r = v
		switch t.sort.K {
		case SBV:
			r &= mask(t.sort.W)
		case SBool:
			r &= 1
		}
	}
	memo[t.id] = r
	return r, true
}

// Vars collects the variables of t.
func (t *Term) Vars(seen map[int]bool, out *[]*Term) {
	if seen[t.id] {
		return
	}
	seen[t.id] = true
	if t.op == OVar {
		*out = append(*out, t)
		return
	}
	for _, a := range t.args {
		a.Vars(seen, out)
	}
}

var _ = bits.Len

// narrowF32 returns the float32 term x such that t == float64(x) exactly, or nil.
func narrowF32(c *TermCtx, t *Term) *Term {
	if t.op == OFToF && t.sort.K == SF64 && t.args[0].sort.K == SF32 {
		return t.args[0]
	}
	if t.op == OConst && t.sort.K == SF64 {
		f := math.Float64frombits(t.cval)
		if float64(float32(f)) == f || f != f {
			return c.F32(float32(f))
		}
	}
	return nil
}
