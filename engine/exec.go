package main

// Symbolic interpreter for go/ssa. One Exec per worker; paths are explored by
// re-execution from the harness entry following a recorded decision prefix.

import (
	"fmt"
	"go/constant"
	"go/token"
	"go/types"
	"math"
	"os"
	"strings"
	"sync"

	"golang.org/x/tools/go/ssa"
)

// ---- control-flow signals (Go panics used to unwind the interpreter) ----

type pathEnd struct {
	kind string // "assume", "infeasible", "inconclusive", "done"
	msg  string
}

// GoPanic models a Go run-time panic propagating through interpreted frames.
type GoPanic struct {
	val       Value
	msg       string
	recovered bool
}

type fnInfo struct {
	idx      map[ssa.Value]int
	n        int
	hasDefer bool
}

var fnInfoCache sync.Map
var traceCalls = os.Getenv("GOSYM_TRACE") != ""
var debugPC = os.Getenv("GOSYM_DEBUG_PC") != ""

func getFnInfo(fn *ssa.Function) *fnInfo {
	if fi, ok := fnInfoCache.Load(fn); ok {
		return fi.(*fnInfo)
	}
	fi := &fnInfo{idx: map[ssa.Value]int{}}
	for _, p := range fn.Params {
		fi.idx[p] = fi.n
		fi.n++
	}
	for _, p := range fn.FreeVars {
		fi.idx[p] = fi.n
		fi.n++
	}
	for _, b := range fn.Blocks {
		for _, in := range b.Instrs {
			if v, ok := in.(ssa.Value); ok {
				fi.idx[v] = fi.n
				fi.n++
			}
			if _, ok := in.(*ssa.Defer); ok {
				fi.hasDefer = true
			}
		}
	}
	if fn.Recover != nil {
		fi.hasDefer = true
	}
	fnInfoCache.Store(fn, fi)
	return fi
}

type deferred struct {
	fn   FuncV
	args []Value
	// invoke-mode
	recv   Value
	method *types.Func
}

type Frame struct {
	fn     *ssa.Function
	fi     *fnInfo
	env    []Value
	defers []deferred
	panic_ *GoPanic // panic being handled while running defers
	caller *Frame
	result Value
}

type dec struct {
	choice   int
	asserted bool
	val      uint64 // value chosen by concretisation
	hasVal   bool
}

type Exec struct {
	ld     *Loaded
	h      *HarnessRun
	tc     *TermCtx
	solver *Solver

	// path state
	prefix     []dec
	decisions  []dec
	levelAfter []int // solver level after each decision of the current path
	pos        int
	model      Model // model of the current path condition (nil = unknown)
	pcTerms    []*Term
	trail      []func()
	epoch      int
	storeCount int64 // heap stores so far on this path (progress detection for blocked threads)
	pathEpoch  int
	initMode   bool
	globals    map[*ssa.Global]*Cell
	pkgInit    map[*ssa.Package]bool
	pkgInitBad map[*ssa.Package]string
	steps      int
	depth      int
	frame      *Frame
	ndSeq      int
	ndVars     []ndVar
	mndSeq     int
	obs        []obsRec
	reached    map[string]int
	ghost      map[string]Value
	errSeq     int
	closedChans map[int]bool // channels closed on this path
	lastDecs   []dec
	lastLevels []int
	pending    []workItem // alternatives discovered on this path
	threads    *threadState
	syncLen    int
	lastSchedule string
	ufIdx      map[string]int
	implied    map[int]int
	inInitGuard bool
	cpos       int

	emptyStr  *StrV
	byteConst [256]*Term
	i64zero   *Term
	typeIDs   map[string]int
	curPanics int
	fnsSeen   map[*ssa.Function]bool
	stubsSeen map[string]bool
	clockSeq  int
	lastClock *Term
}

type ndVar struct {
	Kind string // byte,int,bool,float64,len,...
	Tag  string
	t    *Term
	n    int // for "len": chosen length
}

type obsRec struct {
	Tag string
	V   []Value
}

func (ex *Exec) inconclusive(msg string) {
	panic(pathEnd{kind: "inconclusive", msg: msg + ex.where()})
}

func (ex *Exec) where() string {
	if ex.frame == nil {
		return ""
	}
	var sb strings.Builder
	sb.WriteString(" [in ")
	n := 0
	for f := ex.frame; f != nil && n < 6; f = f.caller {
		if n > 0 {
			sb.WriteString(" <- ")
		}
		sb.WriteString(f.fn.String())
		n++
	}
	sb.WriteString("]")
	return sb.String()
}

// goPanic raises a Go run-time panic with a runtime-error style message.
func (ex *Exec) goPanic(msg string) {
	panic(&GoPanic{val: IfaceV{t: ex.ld.runtimeErrType, v: ex.strConst(msg)}, msg: msg + ex.where()})
}

// ---------------------------------------------------------------------------
// decisions

// decide picks one of the mutually exclusive, jointly exhaustive conditions.
// Alternatives that are feasible but not taken are queued as new paths.
func (ex *Exec) decide(conds []*Term) int {
	return ex.decideEx(conds, nil)
}

func (ex *Exec) decideEx(conds []*Term, vals []uint64) int {
	i := ex.pos
	ex.pos++
	if i < len(ex.prefix) {
		d := ex.prefix[i]
		ex.record(d, conds[d.choice])
		return d.choice
	}
	var feas []int
	var models []Model
	for k, c := range conds {
		ok, m := ex.feasible(c)
		if ok {
			feas = append(feas, k)
			models = append(models, m)
		}
	}
	if len(feas) == 0 {
		panic(pathEnd{kind: "infeasible"})
	}
	asserted := len(feas) < len(conds) || len(conds) == 1 || true
	// a condition that is implied by the path condition need not be asserted
	if len(feas) == 1 && len(conds) > 1 {
		asserted = false
	}
	for j := len(feas) - 1; j >= 1; j-- {
		k := feas[j]
		d := dec{choice: k, asserted: true}
		if vals != nil {
			d.val, d.hasVal = vals[k], true
		}
		p := make([]dec, len(ex.decisions)+1)
		copy(p, ex.decisions)
		p[len(ex.decisions)] = d
		ex.pending = append(ex.pending, workItem{prefix: p, model: models[j]})
	}
	d := dec{choice: feas[0], asserted: asserted}
	if vals != nil {
		d.val, d.hasVal = vals[feas[0]], true
	}
	ex.model = models[0] // nil when the solver answered unknown: the old model need not satisfy the new constraint
	ex.record(d, conds[feas[0]])
	return feas[0]
}

// record appends decision d to the path and brings the solver in line.
func (ex *Exec) record(d dec, cond *Term) {
	i := len(ex.decisions)
	ex.decisions = append(ex.decisions, d)
	if d.asserted {
		ex.pcTerms = append(ex.pcTerms, cond)
	}
	if debugPC && ex.model != nil && ex.pos > len(ex.prefix) {
		memo := map[int]uint64{}
		for k, t := range ex.pcTerms {
			if v, ok := ex.tc.Eval(t, ex.model, memo); ok && v == 0 {
				fmt.Fprintf(os.Stderr, "MODEL STALE at decision %d (asserted=%v choice=%d): pc term %d false: %s\n", i, d.asserted, d.choice, k, t.String())
				debugPC = false
				break
			}
		}
	}
	if i < len(ex.lastLevels) && ex.lastLevels != nil && i < ex.syncLen {
		// scope already present in the solver from the previous path on this worker
		ex.levelAfter = append(ex.levelAfter, ex.lastLevels[i])
		return
	}
	if d.asserted && ex.solver != nil {
		ex.solver.Push()
		ex.solver.Assert(cond)
	}
	lvl := 0
	if ex.solver != nil {
		lvl = ex.solver.Level()
	}
	ex.levelAfter = append(ex.levelAfter, lvl)
	if debugPC && lvl != len(ex.pcTerms) {
		fmt.Fprintf(os.Stderr, "SYNC BUG: decision %d level %d but %d asserted constraints (syncLen %d, prefix %d)\n", i, lvl, len(ex.pcTerms), ex.syncLen, len(ex.prefix))
		debugPC = false
	}
}

// feasible reports whether pc ∧ c is satisfiable ("unknown" counts as feasible).
func (ex *Exec) feasible(c *Term) (bool, Model) {
	if c.op == OConst {
		return c.cval != 0, ex.model
	}
	if ex.model != nil {
		if v, ok := ex.tc.Eval(c, ex.model, map[int]uint64{}); ok && v != 0 {
			return true, ex.model
		}
	}
	// implied-condition cache (valid for every extension of the path prefix it was proven under)
	if _, ok := ex.implied[ex.tc.Not(c).id]; ok {
		return false, nil
	}
	if _, ok := ex.implied[c.id]; ok {
		return true, ex.model // implied by the path condition: any model of it still is one
	}
	if ex.solver == nil {
		ex.inconclusive("symbolic branch in concrete mode")
	}
	ex.solver.Push()
	ex.solver.Assert(c)
	r := ex.solver.Check()
	var m Model
	switch r {
	case "unsat":
		ex.implied[ex.tc.Not(c).id] = len(ex.decisions)
	case "sat":
		m = ex.fetchModel()
	case "unknown":
		ex.h.noteUnknown()
	case "error":
		ex.solver.Pop()
		ex.inconclusive("solver error during feasibility check")
	}
	ex.solver.Pop()
	return r != "unsat", m
}

func (ex *Exec) fetchModel() Model {
	vars := make([]*Term, 0, len(ex.tc.vars))
	for _, v := range ex.tc.vars {
		vars = append(vars, v)
	}
	m, err := ex.solver.GetValues(vars)
	if err != nil {
		if debugPC {
			fmt.Fprintln(os.Stderr, "GetValues error:", err)
		}
		ex.h.note("model retrieval failed: " + err.Error())
		return nil
	}
	return m
}

// assume adds c to the path condition; the path ends silently if infeasible.
func (ex *Exec) assume(c *Term) {
	if c.op == OConst {
		if c.cval == 0 {
			panic(pathEnd{kind: "assume"})
		}
		return
	}
	i := ex.pos
	if i < len(ex.prefix) {
		ex.pos++
		ex.record(ex.prefix[i], c)
		return
	}
	ok, m := ex.feasible(c)
	if !ok {
		panic(pathEnd{kind: "assume"})
	}
	ex.pos++
	ex.model = m
	ex.record(dec{choice: 0, asserted: true}, c)
}

// branch decides a boolean condition.
func (ex *Exec) branch(c *Term) bool {
	if c.op == OConst {
		return c.cval != 0
	}
	return ex.decide([]*Term{c, ex.tc.Not(c)}) == 0
}

// choose makes an unconstrained n-way choice (all alternatives feasible).
func (ex *Exec) choose(n int) int {
	conds := make([]*Term, n)
	for i := range conds {
		conds[i] = ex.tc.True
	}
	i := ex.pos
	ex.pos++
	if i < len(ex.prefix) {
		d := ex.prefix[i]
		ex.record(dec{choice: d.choice}, ex.tc.True)
		return d.choice
	}
	for k := n - 1; k >= 1; k-- {
		p := make([]dec, len(ex.decisions)+1)
		copy(p, ex.decisions)
		p[len(ex.decisions)] = dec{choice: k}
		ex.pending = append(ex.pending, workItem{prefix: p, model: ex.model})
	}
	ex.record(dec{choice: 0}, ex.tc.True)
	return 0
}

// concretize forks over the feasible values of a symbolic integer term.
func (ex *Exec) concretize(t *Term, what string) uint64 {
	if t.op == OConst {
		return t.cval
	}
	for n := 0; ; n++ {
		if n > ex.h.cfg.ConcretizeMax {
			ex.inconclusive(fmt.Sprintf("concretize cap (%d values) for %s", n, what))
		}
		i := ex.pos
		var v uint64
		if i < len(ex.prefix) {
			d := ex.prefix[i]
			v = d.val
			ex.pos++
			eq := ex.tc.Eq(t, ex.tc.Const(t.sort, v))
			if d.choice == 0 {
				ex.record(d, eq)
				return v
			}
			ex.record(d, ex.tc.Not(eq))
			continue
		}
		// need a feasible value: from the model if we have one
		if ex.model == nil {
			ok, m := ex.feasible(ex.tc.Eq(t, t)) // always true: forces a model
			_ = ok
			if m == nil {
				ex.solver.Push()
				r := ex.solver.Check()
				if r == "sat" {
					m = ex.fetchModel()
				}
				ex.solver.Pop()
			}
			ex.model = m
			if ex.model == nil {
				ex.inconclusive("no model for concretisation of " + what)
			}
		}
		mv, ok := ex.tc.Eval(t, ex.model, map[int]uint64{})
		if !ok {
			ex.inconclusive("cannot evaluate term for concretisation of " + what)
		}
		v = mv
		eq := ex.tc.Eq(t, ex.tc.Const(t.sort, v))
		ch := ex.decideEx([]*Term{eq, ex.tc.Not(eq)}, []uint64{v, v})
		if ch == 0 {
			return v
		}
	}
}

// ---------------------------------------------------------------------------
// operand evaluation

func (ex *Exec) get(f *Frame, v ssa.Value) Value {
	switch x := v.(type) {
	case *ssa.Const:
		return ex.constValue(x)
	case *ssa.Global:
		return PtrV{c: ex.globalCell(x)}
	case *ssa.Function:
		return FuncV{fn: x}
	case *ssa.Builtin:
		return FuncV{bi: x}
	}
	i, ok := f.fi.idx[v]
	if !ok {
		panic(fmt.Sprintf("engine: no slot for %v in %v", v, f.fn))
	}
	r := f.env[i]
	if r == nil {
		panic(fmt.Sprintf("engine: unset value %s (%T) in %v", v.Name(), v, f.fn))
	}
	return r
}

func (ex *Exec) constValue(c *ssa.Const) Value {
	t := c.Type()
	if c.Value == nil {
		return ex.zero(t)
	}
	switch u := t.Underlying().(type) {
	case *types.Basic:
		switch {
		case u.Info()&types.IsString != 0:
			return ex.strConst(constant.StringVal(c.Value))
		case u.Info()&types.IsBoolean != 0:
			return ex.tc.Bool(constant.BoolVal(c.Value))
		case u.Info()&types.IsInteger != 0:
			s, _ := basicSort(u)
			if i, ok := constant.Int64Val(constant.ToInt(c.Value)); ok {
				return ex.tc.Const(s, uint64(i))
			}
			ui, _ := constant.Uint64Val(constant.ToInt(c.Value))
			return ex.tc.Const(s, ui)
		case u.Info()&types.IsFloat != 0:
			f, _ := constant.Float64Val(c.Value)
			if u.Kind() == types.Float32 {
				f32, _ := constant.Float32Val(c.Value)
				return ex.tc.F32(f32)
			}
			return ex.tc.F64(f)
		}
	case *types.Interface, *types.TypeParam:
		_ = u
	}
	ex.inconclusive(fmt.Sprintf("unsupported constant %v of type %v", c, t))
	return nil
}

func (ex *Exec) globalCell(g *ssa.Global) *Cell {
	if c, ok := ex.globals[g]; ok {
		if len(ex.pkgInitBad) > 0 && !ex.initMode {
			if why, bad := ex.pkgInitBad[g.Pkg]; bad {
				ex.inconclusive("global " + g.String() + " of a package whose initialiser did not complete: " + why)
			}
		}
		return c
	}
	// allocate every global of the package as init-epoch cells, then run its initialiser
	pkg := g.Pkg
	ex.ensurePkgInit(pkg)
	c, ok := ex.globals[g]
	if !ok {
		saved, savedInit := ex.epoch, ex.initMode
		ex.epoch, ex.initMode = 0, true
		c = ex.newCell(g.Type().(*types.Pointer).Elem())
		ex.epoch, ex.initMode = saved, savedInit
		ex.globals[g] = c
	}
	return c
}

func (ex *Exec) ensurePkgInit(pkg *ssa.Package) {
	if pkg == nil || ex.pkgInit[pkg] {
		return
	}
	ex.pkgInit[pkg] = true
	saved, savedInit := ex.epoch, ex.initMode
	ex.epoch, ex.initMode = 0, true
	for _, m := range pkg.Members {
		if g, ok := m.(*ssa.Global); ok {
			if _, ok := ex.globals[g]; !ok {
				ex.globals[g] = ex.newCell(g.Type().(*types.Pointer).Elem())
			}
		}
	}
	initFn := pkg.Func("init")
	if initFn != nil && initFn.Blocks != nil && !ex.ld.skipInit[pkg.Pkg.Path()] {
		savedFrame, savedSteps, savedDepth := ex.frame, ex.steps, ex.depth
		ex.frame = nil
		func() {
			defer func() {
				if r := recover(); r != nil {
					switch e := r.(type) {
					case pathEnd:
						ex.h.note("init of " + pkg.Pkg.Path() + " incomplete: " + e.msg)
						ex.pkgInitBad[pkg] = e.msg
					case *GoPanic:
						ex.h.note("init of " + pkg.Pkg.Path() + " panicked: " + e.msg)
						ex.pkgInitBad[pkg] = e.msg
					default:
						panic(r)
					}
				}
			}()
			ex.call(initFn, nil, nil)
		}()
		ex.frame, ex.steps, ex.depth = savedFrame, savedSteps, savedDepth
	}
	ex.epoch, ex.initMode = saved, savedInit
}

// ---------------------------------------------------------------------------
// calls

func (ex *Exec) callValue(fv Value, args []Value, site ssa.CallInstruction) Value {
	f, ok := fv.(FuncV)
	if !ok {
		ex.inconclusive(fmt.Sprintf("call of non-function value %T", fv))
	}
	if f.bi != nil {
		return ex.callBuiltin(f.bi, args, site)
	}
	if f.fn == nil {
		ex.goPanic("invalid memory address or nil pointer dereference (nil func call)")
	}
	return ex.call(f.fn, args, f.fv)
}

// call runs fn (after replacement / intrinsic lookup) and returns its result.
func (ex *Exec) call(fn *ssa.Function, args []Value, fv []Value) Value {
	if ex.initMode && fn.Name() == "init" && fn.Signature.Recv() == nil && fn.Pkg != nil && fn == fn.Pkg.Func("init") && ex.frame != nil {
		// package initialisers are run on demand, not from one another
		return nil
	}
	if ex.threads != nil && ex.threads.running && ex.threads.cur != nil && ex.ld.isVisible(fn, ex.h.groups) {
		ex.threads.yieldPoint(ex, fn.Name(), false)
	}
	if ex.initMode && ex.frame != nil && !ex.inInitGuard && ex.frame.fn.Name() == "init" && ex.frame.fn.Pkg != nil && ex.frame.fn == ex.frame.fn.Pkg.Func("init") {
		// a failing initialiser expression makes that one global opaque, not the rest of the package
		return ex.guardedInitCall(fn, args, fv)
	}
	if rep := ex.ld.replacement(fn, ex.h.groups); rep != nil {
		ex.stubsSeen[rep.desc] = true
		if rep.model != nil {
			return ex.call(rep.model, args, nil)
		}
		if rep.noop {
			r, _ := inNoop(ex, fn, args)
			return r
		}
	}
	if h := ex.ld.intrinsic(fn); h != nil {
		if r, ok := h(ex, fn, args); ok {
			return r
		}
	}
	if fn.Blocks == nil {
		if ex.initMode {
			return ex.opaqueResult(fn, "external "+fn.String())
		}
		ex.inconclusive("call to function without body or model: " + fn.String())
	}
	if ex.initMode && ex.ld.initOpaque(fn) {
		return ex.opaqueResult(fn, "init-opaque "+fn.String())
	}
	if ex.depth > ex.h.cfg.MaxDepth {
		ex.inconclusive("call depth cap")
	}
	if !ex.initMode {
		ex.fnsSeen[fn] = true
	}
	if traceCalls {
		as := make([]string, len(args))
		for i, a := range args {
			as[i] = describe(a)
		}
		fmt.Fprintf(os.Stderr, "%*scall %s(%s)\n", ex.depth*2, "", fn.String(), strings.Join(as, ", "))
		defer func() {
			fmt.Fprintf(os.Stderr, "%*sret  %s\n", ex.depth*2, "", fn.Name())
		}()
	}
	fi := getFnInfo(fn)
	f := &Frame{fn: fn, fi: fi, env: make([]Value, fi.n), caller: ex.frame}
	if len(args) != len(fn.Params) {
		panic(fmt.Sprintf("engine: arity mismatch calling %v: %d args, %d params", fn, len(args), len(fn.Params)))
	}
	copy(f.env, args)
	copy(f.env[len(fn.Params):], fv)
	ex.frame = f
	ex.depth++
	defer func() { ex.frame = f.caller; ex.depth-- }()
	if fi.hasDefer {
		return ex.runWithDefers(f)
	}
	ex.runBlocks(f, fn.Blocks[0])
	return f.result
}

// initExec runs one instruction of a package initialiser; a failure makes its result opaque.
func (ex *Exec) initExec(f *Frame, in ssa.Instruction) {
	defer func() {
		if r := recover(); r != nil {
			ex.frame = f
			switch e := r.(type) {
			case pathEnd:
				ex.h.note("initialiser instruction made opaque: " + e.msg)
			case *GoPanic:
				ex.h.note("initialiser instruction panicked (made opaque): " + e.msg)
			default:
				if _, ok := r.(error); !ok {
					if _, ok := r.(string); !ok {
						panic(r)
					}
				}
				ex.h.note(fmt.Sprintf("initialiser instruction failed on opaque operand (made opaque): %v", r))
			}
			if v, ok := in.(ssa.Value); ok {
				ex.set(f, v, OpaqueV{"failed initialiser instruction"})
			}
		}
	}()
	ex.exec(f, in)
}

func (ex *Exec) guardedInitCall(fn *ssa.Function, args []Value, fv []Value) (res Value) {
	savedFrame, savedDepth := ex.frame, ex.depth
	ex.inInitGuard = true
	defer func() {
		ex.inInitGuard = false
		if r := recover(); r != nil {
			ex.frame, ex.depth = savedFrame, savedDepth
			switch e := r.(type) {
			case pathEnd:
				ex.h.note("initialiser call " + fn.String() + " made opaque: " + e.msg)
			case *GoPanic:
				ex.h.note("initialiser call " + fn.String() + " panicked (made opaque): " + e.msg)
			default:
				panic(r)
			}
			res = ex.opaqueResult(fn, "failed initialiser "+fn.String())
		}
	}()
	return ex.call(fn, args, fv)
}

func (ex *Exec) opaqueResult(fn *ssa.Function, why string) Value {
	res := fn.Signature.Results()
	switch res.Len() {
	case 0:
		return nil
	case 1:
		return ex.opaqueOf(res.At(0).Type(), why)
	}
	t := make(TupleV, res.Len())
	for i := range t {
		t[i] = ex.opaqueOf(res.At(i).Type(), why)
	}
	return t
}

func (ex *Exec) opaqueOf(t types.Type, why string) Value {
	// zero for errors/bools (initialisers like `x, err := f()` then test err), opaque otherwise
	if types.Identical(t, ex.ld.errorType) {
		return IfaceV{}
	}
	return OpaqueV{why}
}

func (ex *Exec) runWithDefers(f *Frame) (result Value) {
	defer func() {
		r := recover()
		if r == nil {
			return
		}
		gp, ok := r.(*GoPanic)
		if !ok {
			panic(r)
		}
		// run deferred calls while panicking
		ex.frame = f
		f.panic_ = gp
		ex.runDefers(f)
		if gp.recovered {
			f.panic_ = nil
			if f.fn.Recover != nil {
				f.result = nil
				ex.runBlocks(f, f.fn.Recover)
				result = f.result
			} else {
				result = ex.zeroResults(f.fn)
			}
			return
		}
		panic(gp)
	}()
	ex.runBlocks(f, f.fn.Blocks[0])
	return f.result
}

func (ex *Exec) zeroResults(fn *ssa.Function) Value {
	res := fn.Signature.Results()
	switch res.Len() {
	case 0:
		return nil
	case 1:
		return ex.zero(res.At(0).Type())
	}
	return ex.zero(res)
}

func (ex *Exec) runDefers(f *Frame) {
	for len(f.defers) > 0 {
		d := f.defers[len(f.defers)-1]
		f.defers = f.defers[:len(f.defers)-1]
		if d.method != nil {
			ex.invoke(d.recv, d.method, d.args)
		} else {
			ex.callValue(d.fn, d.args, nil)
		}
	}
}

func (ex *Exec) invoke(recv Value, m *types.Func, args []Value) Value {
	iv, ok := recv.(IfaceV)
	if !ok {
		ex.inconclusive(fmt.Sprintf("invoke on %T", recv))
	}
	if iv.t == nil {
		if m.Pkg() != nil && strings.HasPrefix(m.Pkg().Path(), "github.com/prometheus/") {
			// metrics objects are opaque: their methods are no-ops
			sig := m.Type().(*types.Signature)
			switch sig.Results().Len() {
			case 0:
				return nil
			case 1:
				return ex.zero(sig.Results().At(0).Type())
			}
			return ex.zero(sig.Results())
		}
		ex.goPanic("invalid memory address or nil pointer dereference (nil interface method call " + m.Name() + ")")
	}
	fn := ex.ld.prog.LookupMethod(iv.t, m.Pkg(), m.Name())
	if fn == nil {
		ex.inconclusive(fmt.Sprintf("no method %s for dynamic type %v", m.Name(), iv.t))
	}
	all := make([]Value, 0, len(args)+1)
	all = append(all, iv.v)
	all = append(all, args...)
	return ex.call(fn, all, nil)
}

// ---------------------------------------------------------------------------
// block interpreter

func (ex *Exec) runBlocks(f *Frame, start *ssa.BasicBlock) {
	var prev *ssa.BasicBlock
	b := start
	for b != nil {
		next := (*ssa.BasicBlock)(nil)
		// phis first (parallel assignment)
		nphi := 0
		for _, in := range b.Instrs {
			if _, ok := in.(*ssa.Phi); ok {
				nphi++
			} else {
				break
			}
		}
		if nphi > 0 {
			pi := -1
			for i, p := range b.Preds {
				if p == prev {
					pi = i
					break
				}
			}
			if pi < 0 {
				panic("engine: phi without predecessor")
			}
			vals := make([]Value, nphi)
			for i := 0; i < nphi; i++ {
				vals[i] = ex.get(f, b.Instrs[i].(*ssa.Phi).Edges[pi])
			}
			for i := 0; i < nphi; i++ {
				f.env[f.fi.idx[b.Instrs[i].(*ssa.Phi)]] = vals[i]
			}
		}
		for _, in := range b.Instrs[nphi:] {
			ex.steps++
			if ex.steps&0xfff == 0 && ex.h.stopped {
				panic(pathEnd{kind: "stopped"})
			}
			if ex.steps > ex.h.cfg.MaxSteps && !ex.initMode {
				ex.inconclusive(fmt.Sprintf("step cap %d", ex.h.cfg.MaxSteps))
			}
			switch x := in.(type) {
			case *ssa.If:
				c := ex.get(f, x.Cond).(*Term)
				if ex.branch(c) {
					next = b.Succs[0]
				} else {
					next = b.Succs[1]
				}
			case *ssa.Jump:
				next = b.Succs[0]
			case *ssa.Return:
				switch len(x.Results) {
				case 0:
					f.result = nil
				case 1:
					f.result = ex.get(f, x.Results[0])
				default:
					t := make(TupleV, len(x.Results))
					for i, r := range x.Results {
						t[i] = ex.get(f, r)
					}
					f.result = t
				}
				return
			case *ssa.Panic:
				v := ex.get(f, x.X)
				panic(&GoPanic{val: v, msg: "panic: " + ex.describePanic(v) + ex.where()})
			default:
				if ex.initMode && !ex.inInitGuard && f.fn.Name() == "init" {
					ex.initExec(f, in)
				} else {
					ex.exec(f, in)
				}
			}
		}
		prev = b
		b = next
	}
}

func (ex *Exec) describePanic(v Value) string {
	if iv, ok := v.(IfaceV); ok {
		if s, ok := iv.v.(*StrV); ok {
			if cs, ok := s.concrete(); ok {
				return cs
			}
		}
		if iv.t != nil {
			return "value of type " + iv.t.String()
		}
	}
	return "?"
}

func (ex *Exec) set(f *Frame, v ssa.Value, val Value) {
	f.env[f.fi.idx[v]] = val
}

func (ex *Exec) exec(f *Frame, in ssa.Instruction) {
	switch x := in.(type) {
	case *ssa.DebugRef:
	case *ssa.Alloc:
		ex.set(f, x, PtrV{c: ex.newCell(x.Type().(*types.Pointer).Elem())})
	case *ssa.BinOp:
		ex.set(f, x, ex.binop(x.Op, ex.get(f, x.X), ex.get(f, x.Y), x.X.Type(), x.Y.Type()))
	case *ssa.UnOp:
		ex.set(f, x, ex.unop(x, ex.get(f, x.X)))
	case *ssa.Call:
		r := ex.doCall(f, x)
		if r == nil {
			r = TupleV{}
		}
		ex.set(f, x, r)
	case *ssa.Defer:
		c := x.Common()
		args := make([]Value, len(c.Args))
		for i, a := range c.Args {
			args[i] = ex.get(f, a)
		}
		if c.IsInvoke() {
			f.defers = append(f.defers, deferred{recv: ex.get(f, c.Value), method: c.Method, args: args})
		} else {
			f.defers = append(f.defers, deferred{fn: ex.get(f, c.Value).(FuncV), args: args})
		}
	case *ssa.RunDefers:
		ex.runDefers(f)
	case *ssa.Go:
		ex.doGo(f, x)
	case *ssa.Extract:
		ex.set(f, x, ex.get(f, x.Tuple).(TupleV)[x.Index])
	case *ssa.Field:
		ex.set(f, x, ex.get(f, x.X).(StructV).f[x.Field])
	case *ssa.FieldAddr:
		p := ex.get(f, x.X).(PtrV)
		ex.set(f, x, ex.fieldAddr(p, x.Field))
	case *ssa.Index:
		ex.set(f, x, ex.index(ex.get(f, x.X), ex.get(f, x.Index).(*Term), x.Index.Type()))
	case *ssa.IndexAddr:
		ex.set(f, x, ex.indexAddr(ex.get(f, x.X), ex.get(f, x.Index).(*Term), x.Index.Type()))
	case *ssa.Lookup:
		ex.set(f, x, ex.lookup(x, ex.get(f, x.X), ex.get(f, x.Index)))
	case *ssa.MakeClosure:
		bs := make([]Value, len(x.Bindings))
		for i, b := range x.Bindings {
			bs[i] = ex.get(f, b)
		}
		ex.set(f, x, FuncV{fn: x.Fn.(*ssa.Function), fv: bs})
	case *ssa.MakeInterface:
		ex.set(f, x, IfaceV{t: x.X.Type(), v: ex.get(f, x.X)})
	case *ssa.MakeMap:
		ex.set(f, x, MapV{m: &MapObj{kt: x.Type().Underlying().(*types.Map).Key(), birth: ex.epoch}})
	case *ssa.MakeChan:
		ex.errSeq++
		ex.set(f, x, ChanV{id: ex.errSeq})
	case *ssa.MakeSlice:
		ln := int(ex.concretize(ex.get(f, x.Len).(*Term), "make len"))
		cp := int(ex.concretize(ex.get(f, x.Cap).(*Term), "make cap"))
		if ln < 0 || cp < ln || cp > ex.h.cfg.MaxAlloc {
			if cp > ex.h.cfg.MaxAlloc {
				ex.inconclusive(fmt.Sprintf("make([]T, %d, %d) exceeds allocation cap", ln, cp))
			}
			ex.goPanic("makeslice: len out of range")
		}
		arr := ex.newArrayCell(x.Type().Underlying().(*types.Slice).Elem(), cp)
		ex.set(f, x, SliceV{arr: arr, off: 0, len: ln, cap: cp})
	case *ssa.MapUpdate:
		ex.mapUpdate(ex.get(f, x.Map), ex.get(f, x.Key), ex.get(f, x.Value))
	case *ssa.Range:
		ex.set(f, x, ex.makeRange(ex.get(f, x.X)))
	case *ssa.Next:
		ex.set(f, x, ex.rangeNext(ex.get(f, x.Iter).(*RangeIter), x))
	case *ssa.Slice:
		ex.set(f, x, ex.sliceOp(f, x))
	case *ssa.SliceToArrayPointer:
		s := ex.get(f, x.X).(SliceV)
		n := int(x.Type().(*types.Pointer).Elem().Underlying().(*types.Array).Len())
		if s.len < n {
			ex.goPanic("cannot convert slice to array pointer: length too short")
		}
		if s.arr == nil {
			ex.set(f, x, PtrV{})
		} else if s.off == 0 && s.arr.arrayLen() == n {
			ex.set(f, x, PtrV{c: s.arr})
		} else {
			ex.inconclusive("SliceToArrayPointer with offset")
		}
	case *ssa.Store:
		ex.store(ex.get(f, x.Addr).(PtrV), ex.get(f, x.Val))
	case *ssa.TypeAssert:
		ex.set(f, x, ex.typeAssert(x, ex.get(f, x.X)))
	case *ssa.ChangeType:
		ex.set(f, x, ex.get(f, x.X))
	case *ssa.ChangeInterface:
		ex.set(f, x, ex.get(f, x.X))
	case *ssa.Convert:
		ex.set(f, x, ex.convert(ex.get(f, x.X), x.X.Type(), x.Type()))
	case *ssa.MultiConvert:
		ex.set(f, x, ex.convert(ex.get(f, x.X), x.X.Type(), x.Type()))
	case *ssa.Select:
		// only the polling form is supported: a receive from a closed channel is ready, anything else is
		// not (nothing in an interpreted run ever sends), so the default case is taken
		if x.Blocking {
			ex.inconclusive("blocking select (channels)")
		}
		ex.stubsSeen["select with default: a receive is ready only on a closed channel"] = true
		tup := x.Type().(*types.Tuple)
		res := make(TupleV, tup.Len())
		for i := 0; i < tup.Len(); i++ {
			res[i] = ex.zero(tup.At(i).Type())
		}
		idx := -1
		for i, st := range x.States {
			if st.Dir == types.RecvOnly {
				if ch, ok := ex.get(f, st.Chan).(ChanV); ok && ex.closedChans[ch.id] {
					idx = i
					break
				}
			}
		}
		res[0] = ex.tc.Const(BV(64), uint64(int64(idx)))
		ex.set(f, x, res)
	case *ssa.Send:
		ex.inconclusive(fmt.Sprintf("unsupported instruction %T (channels)", in))
	default:
		ex.inconclusive(fmt.Sprintf("unsupported instruction %T", in))
	}
}

func (ex *Exec) doCall(f *Frame, x ssa.CallInstruction) Value {
	c := x.Common()
	args := make([]Value, len(c.Args))
	for i, a := range c.Args {
		args[i] = ex.get(f, a)
	}
	if c.IsInvoke() {
		return ex.invoke(ex.get(f, c.Value), c.Method, args)
	}
	switch fn := c.Value.(type) {
	case *ssa.Function:
		return ex.call(fn, args, nil)
	case *ssa.Builtin:
		return ex.callBuiltin(fn, args, x)
	}
	return ex.callValue(ex.get(f, c.Value), args, x)
}

func (ex *Exec) doGo(f *Frame, x *ssa.Go) {
	c := x.Common()
	args := make([]Value, len(c.Args))
	for i, a := range c.Args {
		args[i] = ex.get(f, a)
	}
	if ex.threads != nil && ex.h.cfg.IgnoreGo && ex.h.cfg.IgnoreGoInThreads {
		ex.stubsSeen["go statements ignored, also inside interpreted threads (background goroutine not started)"] = true
		return
	}
	if ex.threads != nil {
		if c.IsInvoke() {
			ex.inconclusive("go on interface method in thread mode")
		}
		ex.threads.spawn(ex, ex.get(f, c.Value).(FuncV), args)
		return
	}
	if ex.h.cfg.IgnoreGo {
		ex.stubsSeen["go statements ignored (background goroutine not started)"] = true
		return
	}
	ex.inconclusive("go statement outside thread mode")
}

// ---------------------------------------------------------------------------
// memory

func (ex *Exec) nilDeref() {
	ex.goPanic("invalid memory address or nil pointer dereference")
}

func (ex *Exec) load(p PtrV, want types.Type) Value {
	if p.idx != nil {
		// ite chain over the candidate elements (runs of equal entries merged)
		ts := make([]*Term, p.n)
		for k := 0; k < p.n; k++ {
			e, ok := ex.loadCell(ex.kid(p.arr, p.off+k)).(*Term)
			if !ok {
				ex.inconclusive("symbolic index into non-scalar elements")
			}
			ts[k] = e
		}
		return ex.selectTerm(ts, p.idx)
	}
	if p.c == nil {
		ex.nilDeref()
	}
	if p.view != nil {
		return ex.loadView(p, want)
	}
	return ex.loadCell(p.c)
}

func (ex *Exec) store(p PtrV, v Value) {
	if p.idx != nil {
		nv, ok := v.(*Term)
		if !ok {
			ex.inconclusive("symbolic-index store of non-scalar")
		}
		for k := 0; k < p.n; k++ {
			c := ex.kid(p.arr, p.off+k)
			old := ex.loadCell(c).(*Term)
			ex.storeCell(c, ex.tc.Ite(ex.tc.Eq(p.idx, ex.tc.Const(p.idx.sort, uint64(k))), nv, old))
		}
		return
	}
	if p.c == nil {
		ex.nilDeref()
	}
	if p.view != nil {
		ex.storeView(p, v)
		return
	}
	ex.storeCell(p.c, v)
}

// loadView implements the layout-preserving reinterpretations produced by unsafe casts.
func (ex *Exec) loadView(p PtrV, want types.Type) Value {
	v := ex.loadCell(p.c)
	switch w := p.view.Underlying().(type) {
	case *types.Basic:
		if w.Kind() == types.String {
			switch s := v.(type) {
			case SliceV:
				return &StrV{b: ex.sliceBytes(s)}
			case *StrV:
				return s
			case StructV:
				if len(s.f) >= 2 {
					bp, ok1 := s.f[0].(PtrV)
					l, ok2 := s.f[1].(*Term)
					if ok1 && ok2 {
						n := int(ex.concretize(l, "string header len"))
						if n == 0 || bp.c == nil {
							return ex.emptyStr
						}
						if bp.c.parent != nil && bp.c.parent.isArray() {
							return &StrV{b: ex.sliceBytes(SliceV{arr: bp.c.parent, off: bp.c.idx, len: n, cap: n})}
						}
					}
				}
			}
		}
		if sv, ok := v.(*Term); ok {
			ws, _, _ := scalarSort(p.view)
			if sv.sort.bitWidth() == ws.bitWidth() {
				return ex.reinterpretScalar(sv, ws)
			}
			// a narrower scalar at the start of a wider integer cell (little endian): its low bits
			if sv.sort.K == SBV {
				if ws.K == SBool && sv.sort.bitWidth() >= 8 {
					return ex.tc.Not(ex.tc.Eq(ex.tc.Extract(sv, 7, 0), ex.tc.Const(BV(8), 0)))
				}
				if ws.K == SBV && ws.bitWidth() < sv.sort.bitWidth() {
					return ex.tc.Extract(sv, ws.bitWidth()-1, 0)
				}
			}
		}
	case *types.Struct:
		// string viewed as a header struct{data unsafe.Pointer; len int}: data points at a copy of the bytes
		if s, ok := v.(*StrV); ok && w.NumFields() == 2 {
			if len(s.b) == 0 {
				return StructV{[]Value{PtrV{}, ex.intConst(0)}}
			}
			sl := ex.bytesToSlice(s.b, nil)
			return StructV{[]Value{PtrV{c: ex.kid(sl.arr, 0)}, ex.intConst(len(s.b))}}
		}
		if s, ok := v.(SliceV); ok && w.NumFields() == 3 {
			if s.arr == nil {
				return StructV{[]Value{PtrV{}, ex.intConst(0), ex.intConst(0)}}
			}
			return StructV{[]Value{PtrV{c: ex.kid(s.arr, s.off)}, ex.intConst(s.len), ex.intConst(s.cap)}}
		}
	case *types.Slice:
		switch s := v.(type) {
		case *StrV:
			return ex.bytesToSlice(s.b, nil)
		case SliceV:
			return s
		case StructV:
			// struct{ptr *T; len, cap int} viewed as a slice header
			if len(s.f) == 3 {
				bp, ok1 := s.f[0].(PtrV)
				l, ok2 := s.f[1].(*Term)
				cp, ok3 := s.f[2].(*Term)
				if ok1 && ok2 && ok3 {
					ln := int(ex.concretize(l, "slice header len"))
					cn := int(ex.concretize(cp, "slice header cap"))
					if bp.c == nil {
						return SliceV{}
					}
					if bp.c.parent == nil || !bp.c.parent.isArray() {
						ex.inconclusive("slice header over non-array memory")
					}
					return SliceV{arr: bp.c.parent, off: bp.c.idx, len: ln, cap: cn}
				}
			}
		}
	}
	ex.inconclusive(fmt.Sprintf("unsupported unsafe reinterpretation: %v viewed as %v", p.c.typ, p.view))
	return nil
}

func (ex *Exec) storeView(p PtrV, v Value) {
	if t, ok := v.(*Term); ok {
		if cs, _, ok2 := scalarSort(p.c.typ); ok2 && cs.bitWidth() == t.sort.bitWidth() {
			ex.storeCell(p.c, ex.reinterpretScalar(t, cs))
			return
		}
		// a narrower scalar stored at the start of a wider integer cell (little endian): replaces its low bits
		if cs, _, ok2 := scalarSort(p.c.typ); ok2 && cs.K == SBV {
			if old, ok3 := ex.loadCell(p.c).(*Term); ok3 {
				W := cs.bitWidth()
				if t.sort.K == SBool && W > 8 {
					b8 := ex.tc.Ite(t, ex.tc.Const(BV(8), 1), ex.tc.Const(BV(8), 0))
					ex.storeCell(p.c, ex.tc.Concat(ex.tc.Extract(old, W-1, 8), b8))
					return
				}
				if t.sort.K == SBV && t.sort.bitWidth() < W {
					ex.storeCell(p.c, ex.tc.Concat(ex.tc.Extract(old, W-1, t.sort.bitWidth()), t))
					return
				}
			}
		}
	}
	ex.inconclusive(fmt.Sprintf("unsupported store through unsafe view %v over %v", p.view, p.c.typ))
}

func (ex *Exec) reinterpretScalar(t *Term, to Sort) *Term {
	if t.sort == to {
		return t
	}
	if to.K == SBV && t.sort.K == SBV {
		return t
	}
	if (to.K == SF32 || to.K == SF64) && t.sort.K == SBV {
		return ex.tc.Conv(OBToF, t, to)
	}
	if to.K == SBV && (t.sort.K == SF32 || t.sort.K == SF64) {
		return ex.floatBits(t)
	}
	ex.inconclusive("reinterpretScalar")
	return nil
}

// floatBits returns the IEEE bit pattern of f as a bit-vector (fresh variable + constraint when symbolic).
func (ex *Exec) floatBits(f *Term) *Term {
	w := f.sort.bitWidth()
	if f.op == OConst {
		return ex.tc.Const(BV(w), f.cval)
	}
	if f.op == OBToF {
		return f.args[0]
	}
	key := fmt.Sprintf("fb_%d", f.id)
	k, ok := ex.ufIdx[key]
	if !ok {
		k = len(ex.ufIdx)
		ex.ufIdx[key] = k
	}
	b := ex.tc.Var(fmt.Sprintf("fb%d_%d", k, w), BV(w))
	// structural equality: NaN payloads are not tracked (single NaN in SMT)
	ex.assume(ex.tc.Eq(ex.tc.Conv(OBToF, b, f.sort), f))
	return b
}

func (ex *Exec) fieldAddr(p PtrV, i int) PtrV {
	if p.idx != nil {
		k := int(ex.concretize(p.idx, "field of symbolically indexed element"))
		p = PtrV{c: ex.kid(p.arr, p.off+k)}
	}
	if p.c == nil {
		ex.nilDeref()
	}
	if p.view != nil {
		// a string or slice read through a header struct {ptr, len[, cap]}: a snapshot of the header (reads only)
		if st, ok := p.view.Underlying().(*types.Struct); ok && (st.NumFields() == 2 || st.NumFields() == 3) {
			if hv, ok2 := ex.loadView(p, p.view).(StructV); ok2 && len(hv.f) == st.NumFields() {
				tmp := ex.newCell(p.view)
				for k := range hv.f {
					ex.storeCell(tmp.kids[k], hv.f[k])
				}
				return PtrV{c: tmp.kids[i]}
			}
		}
		ex.inconclusive(fmt.Sprintf("field access through unsafe view %v over %v", p.view, p.c.typ))
	}
	if p.c.kids == nil {
		panic(fmt.Sprintf("engine: FieldAddr on leaf cell of type %v", p.c.typ))
	}
	return PtrV{c: p.c.kids[i]}
}

// boundsCheck forks on idx <u n (the failing side panics) for a signed/unsigned index term.
func (ex *Exec) boundsCheck(idx *Term, n int, what string) {
	i64 := ex.toWidth(idx, 64, true)
	ok := ex.tc.CmpBV(OUlt, i64, ex.tc.Const(BV(64), uint64(n)))
	if !ex.branch(ok) {
		ex.goPanic(fmt.Sprintf("index out of range [%s] with length %d", what, n))
	}
}

func (ex *Exec) toWidth(t *Term, w int, signed bool) *Term {
	if t.sort.W == w {
		return t
	}
	if signed {
		return ex.tc.SExt(t, w)
	}
	return ex.tc.ZExt(t, w)
}

func isSigned(t types.Type) bool {
	_, s, _ := scalarSort(t)
	return s
}

func (ex *Exec) idx64(idx *Term, it types.Type) *Term {
	return ex.toWidth(idx, 64, isSigned(it))
}

func (ex *Exec) indexAddr(base Value, idx *Term, it types.Type) Value {
	idx = ex.idx64(idx, it)
	var arr *Cell
	off, n := 0, 0
	switch b := base.(type) {
	case SliceV:
		arr, off, n = b.arr, b.off, b.len
	case PtrV:
		if b.idx != nil {
			ex.inconclusive("indexAddr through symbolic pointer")
		}
		if b.c == nil {
			ex.nilDeref()
		}
		arr, off, n = b.c, 0, b.c.arrayLen()
	default:
		ex.inconclusive(fmt.Sprintf("indexAddr on %T", base))
	}
	ex.boundsCheck(idx, n, "sym")
	if idx.op == OConst {
		if off+int(idx.cval) >= arr.arrayLen() {
			ex.goPanic("access beyond backing array (unsafe slice header)")
		}
		return PtrV{c: ex.kid(arr, off+int(idx.cval))}
	}
	elem := arr.typ.Underlying().(*types.Array).Elem()
	if _, _, scalar := scalarSort(elem); scalar && n <= ex.h.cfg.MaxSymIndex {
		if off+n > arr.arrayLen() {
			ex.goPanic("access beyond backing array (unsafe slice header)")
		}
		return PtrV{arr: arr, idx: idx, off: off, n: n}
	}
	k := int(ex.concretize(idx, "index"))
	return PtrV{c: ex.kid(arr, off+k)}
}

func (ex *Exec) index(base Value, idx *Term, it types.Type) Value {
	idx = ex.idx64(idx, it)
	switch b := base.(type) {
	case *StrV:
		ex.boundsCheck(idx, len(b.b), "str")
		if idx.op == OConst {
			return b.b[idx.cval]
		}
		return ex.selectTerm(b.b, idx)
	case ArrayV:
		ex.boundsCheck(idx, len(b.e), "arr")
		if idx.op == OConst {
			return b.e[idx.cval]
		}
		ts := make([]*Term, len(b.e))
		for i, e := range b.e {
			t, ok := e.(*Term)
			if !ok {
				k := int(ex.concretize(idx, "array index"))
				return b.e[k]
			}
			ts[i] = t
		}
		return ex.selectTerm(ts, idx)
	}
	ex.inconclusive(fmt.Sprintf("index on %T", base))
	return nil
}

// selectTerm builds ts[idx] as an ite chain, merging runs of identical entries into range tests.
func (ex *Exec) selectTerm(ts []*Term, idx *Term) *Term {
	tc := ex.tc
	if len(ts) == 0 {
		ex.inconclusive("select from empty table")
	}
	// runs
	type run struct {
		lo, hi int
		t      *Term
	}
	var runs []run
	for i, t := range ts {
		if len(runs) > 0 && runs[len(runs)-1].t == t {
			runs[len(runs)-1].hi = i
		} else {
			runs = append(runs, run{i, i, t})
		}
	}
	res := runs[len(runs)-1].t
	for k := len(runs) - 2; k >= 0; k-- {
		r := runs[k]
		var g *Term
		if r.lo == r.hi {
			g = tc.Eq(idx, tc.Const(idx.sort, uint64(r.lo)))
		} else {
			// chain is ordered, so idx <= hi suffices
			g = tc.CmpBV(OUle, idx, tc.Const(idx.sort, uint64(r.hi)))
		}
		res = tc.Ite(g, r.t, res)
	}
	return res
}

func (ex *Exec) sliceOp(f *Frame, x *ssa.Slice) Value {
	base := ex.get(f, x.X)
	getI := func(v ssa.Value, def int) int {
		if v == nil {
			return def
		}
		t := ex.get(f, v).(*Term)
		t = ex.idx64(t, v.Type())
		if t.op != OConst {
			return int(int64(ex.concretize(t, "slice bound")))
		}
		return int(int64(t.cval))
	}
	switch b := base.(type) {
	case *StrV:
		lo := getI(x.Low, 0)
		hi := getI(x.High, len(b.b))
		if lo < 0 || hi < lo || hi > len(b.b) {
			ex.goPanic(fmt.Sprintf("slice bounds out of range [%d:%d] with length %d", lo, hi, len(b.b)))
		}
		return &StrV{b: b.b[lo:hi]}
	case SliceV:
		lo := getI(x.Low, 0)
		hi := getI(x.High, b.len)
		mx := getI(x.Max, b.cap)
		if lo < 0 || hi < lo || hi > mx || mx > b.cap {
			ex.goPanic(fmt.Sprintf("slice bounds out of range [%d:%d:%d] with capacity %d", lo, hi, mx, b.cap))
		}
		if b.arr == nil {
			return SliceV{}
		}
		return SliceV{arr: b.arr, off: b.off + lo, len: hi - lo, cap: mx - lo}
	case PtrV:
		if b.c == nil {
			ex.nilDeref()
		}
		n := b.c.arrayLen()
		lo := getI(x.Low, 0)
		hi := getI(x.High, n)
		mx := getI(x.Max, n)
		if lo < 0 || hi < lo || hi > mx || mx > n {
			ex.goPanic(fmt.Sprintf("slice bounds out of range [%d:%d:%d] with array length %d", lo, hi, mx, n))
		}
		return SliceV{arr: b.c, off: lo, len: hi - lo, cap: mx - lo}
	}
	ex.inconclusive(fmt.Sprintf("slice of %T", base))
	return nil
}

// ---------------------------------------------------------------------------
// maps

func (ex *Exec) mapFind(m *MapObj, key Value) int {
	for i, k := range m.keys {
		e := ex.eqValues(k, key)
		if ex.branch(e) {
			return i
		}
	}
	return -1
}

func (ex *Exec) lookup(x *ssa.Lookup, base Value, key Value) Value {
	if s, ok := base.(*StrV); ok {
		return ex.index(s, key.(*Term), x.Index.Type())
	}
	m := base.(MapV)
	vt := x.X.Type().Underlying().(*types.Map).Elem()
	var val Value
	found := false
	if m.m != nil {
		if i := ex.mapFind(m.m, key); i >= 0 {
			val, found = m.m.vals[i], true
		}
	}
	if !found {
		val = ex.zero(vt)
	}
	if x.CommaOk {
		return TupleV{val, ex.tc.Bool(found)}
	}
	return val
}

func (ex *Exec) mapTrail(m *MapObj) {
	if m.birth < ex.pathEpoch && !ex.initMode {
		ok, ov := m.keys, m.vals
		ex.trail = append(ex.trail, func() { m.keys, m.vals = ok, ov })
	}
}

func (ex *Exec) mapUpdate(mv Value, key, val Value) {
	ex.storeCount++
	m := mv.(MapV).m
	if m == nil {
		ex.goPanic("assignment to entry in nil map")
	}
	i := ex.mapFind(m, key)
	ex.mapTrail(m)
	if i >= 0 {
		nv := make([]Value, len(m.vals))
		copy(nv, m.vals)
		nv[i] = val
		m.vals = nv
		return
	}
	m.keys = append(append([]Value(nil), m.keys...), key)
	m.vals = append(append([]Value(nil), m.vals...), val)
}

func (ex *Exec) mapDelete(mv Value, key Value) {
	ex.storeCount++
	m := mv.(MapV).m
	if m == nil {
		return
	}
	i := ex.mapFind(m, key)
	if i < 0 {
		return
	}
	ex.mapTrail(m)
	nk := append(append([]Value(nil), m.keys[:i]...), m.keys[i+1:]...)
	nv := append(append([]Value(nil), m.vals[:i]...), m.vals[i+1:]...)
	m.keys, m.vals = nk, nv
}

// ---------------------------------------------------------------------------
// range

type RangeIter struct {
	str  *StrV
	pos  int
	keys []Value
	vals []Value
	m    *MapObj
}

func (ex *Exec) makeRange(v Value) Value {
	switch x := v.(type) {
	case *StrV:
		return &RangeIter{str: x}
	case MapV:
		it := &RangeIter{}
		if x.m != nil {
			it.keys = x.m.keys
			it.vals = x.m.vals
			it.m = x.m
		}
		return it
	}
	ex.inconclusive(fmt.Sprintf("range over %T", v))
	return nil
}

func (ex *Exec) rangeNext(it *RangeIter, x *ssa.Next) Value {
	tc := ex.tc
	if x.IsString {
		if it.pos >= len(it.str.b) {
			return TupleV{tc.False, tc.Const(BV(64), 0), tc.Const(BV(32), 0)}
		}
		start := it.pos
		b0 := it.str.b[start]
		if b0.op == OConst && b0.cval < 0x80 {
			it.pos++
			return TupleV{tc.True, tc.Const(BV(64), uint64(start)), tc.Const(BV(32), b0.cval)}
		}
		fn := ex.ld.utf8DecodeRuneInString
		if fn == nil {
			ex.inconclusive("range over string with non-ASCII/symbolic bytes (utf8 not loaded)")
		}
		r := ex.call(fn, []Value{&StrV{b: it.str.b[start:]}}, nil).(TupleV)
		sz := int(ex.concretize(r[1].(*Term), "rune size"))
		it.pos += sz
		return TupleV{tc.True, tc.Const(BV(64), uint64(start)), r[0]}
	}
	for it.pos < len(it.keys) {
		i := it.pos
		it.pos++
		// skip entries deleted during iteration (best effort: identity of key slot)
		return TupleV{tc.True, it.keys[i], it.vals[i]}
	}
	mt := x.Iter.(*ssa.Range).X.Type().Underlying().(*types.Map)
	return TupleV{tc.False, ex.zero(mt.Key()), ex.zero(mt.Elem())}
}

// ---------------------------------------------------------------------------
// operators

func (ex *Exec) binop(op token.Token, a, b Value, ta, tb types.Type) Value {
	tc := ex.tc
	switch x := a.(type) {
	case *Term:
		y, ok := b.(*Term)
		if !ok {
			ex.inconclusive(fmt.Sprintf("binop %v on term and %T", op, b))
		}
		switch x.sort.K {
		case SBool:
			switch op {
			case token.EQL:
				return tc.Eq(x, y)
			case token.NEQ:
				return tc.Not(tc.Eq(x, y))
			case token.AND, token.LAND:
				return tc.And(x, y)
			case token.OR, token.LOR:
				return tc.Or(x, y)
			}
		case SF32, SF64:
			switch op {
			case token.ADD:
				return tc.FBin(OFAdd, x, y)
			case token.SUB:
				return tc.FBin(OFSub, x, y)
			case token.MUL:
				return tc.FBin(OFMul, x, y)
			case token.QUO:
				return tc.FBin(OFDiv, x, y)
			case token.EQL:
				return tc.FCmp(OFEq, x, y)
			case token.NEQ:
				return tc.Not(tc.FCmp(OFEq, x, y))
			case token.LSS:
				return tc.FCmp(OFLt, x, y)
			case token.LEQ:
				return tc.FCmp(OFLe, x, y)
			case token.GTR:
				return tc.FCmp(OFLt, y, x)
			case token.GEQ:
				return tc.FCmp(OFLe, y, x)
			}
		case SBV:
			signed := isSigned(ta)
			switch op {
			case token.ADD:
				return tc.BinBV(OAdd, x, y)
			case token.SUB:
				return tc.BinBV(OSub, x, y)
			case token.MUL:
				return tc.BinBV(OMul, x, y)
			case token.QUO, token.REM:
				if !ex.branch(tc.Not(tc.Eq(y, tc.Const(y.sort, 0)))) {
					ex.goPanic("integer divide by zero")
				}
				switch {
				case op == token.QUO && signed:
					return tc.BinBV(OSDiv, x, y)
				case op == token.QUO:
					return tc.BinBV(OUDiv, x, y)
				case signed:
					return tc.BinBV(OSRem, x, y)
				default:
					return tc.BinBV(OURem, x, y)
				}
			case token.AND:
				return tc.BinBV(OBAnd, x, y)
			case token.OR:
				return tc.BinBV(OBOr, x, y)
			case token.XOR:
				return tc.BinBV(OBXor, x, y)
			case token.AND_NOT:
				return tc.BinBV(OBAnd, x, tc.UnBV(OBNot, y))
			case token.SHL, token.SHR:
				return ex.shift(op, x, y, signed, isSigned(tb))
			case token.EQL:
				return tc.Eq(x, y)
			case token.NEQ:
				return tc.Not(tc.Eq(x, y))
			case token.LSS:
				if signed {
					return tc.CmpBV(OSlt, x, y)
				}
				return tc.CmpBV(OUlt, x, y)
			case token.LEQ:
				if signed {
					return tc.CmpBV(OSle, x, y)
				}
				return tc.CmpBV(OUle, x, y)
			case token.GTR:
				if signed {
					return tc.CmpBV(OSlt, y, x)
				}
				return tc.CmpBV(OUlt, y, x)
			case token.GEQ:
				if signed {
					return tc.CmpBV(OSle, y, x)
				}
				return tc.CmpBV(OUle, y, x)
			}
		}
	case *StrV:
		y := b.(*StrV)
		switch op {
		case token.ADD:
			if len(x.b) == 0 {
				return y
			}
			if len(y.b) == 0 {
				return x
			}
			nb := make([]*Term, 0, len(x.b)+len(y.b))
			nb = append(nb, x.b...)
			nb = append(nb, y.b...)
			return &StrV{b: nb}
		case token.EQL:
			return ex.strEq(x, y)
		case token.NEQ:
			return tc.Not(ex.strEq(x, y))
		case token.LSS:
			return ex.strLt(x, y, false)
		case token.LEQ:
			return ex.strLt(x, y, true)
		case token.GTR:
			return ex.strLt(y, x, false)
		case token.GEQ:
			return ex.strLt(y, x, true)
		}
	default:
		switch op {
		case token.EQL:
			return ex.eqValues(a, b)
		case token.NEQ:
			return tc.Not(ex.eqValues(a, b))
		}
	}
	ex.inconclusive(fmt.Sprintf("unsupported binop %v on %T,%T", op, a, b))
	return nil
}

func (ex *Exec) shift(op token.Token, x, y *Term, signed, cntSigned bool) Value {
	tc := ex.tc
	w := x.sort.W
	if cntSigned {
		neg := tc.CmpBV(OSlt, y, tc.Const(y.sort, 0))
		if ex.branch(neg) {
			ex.goPanic("negative shift amount")
		}
	}
	y64 := tc.ZExt(y, 64)
	big := tc.CmpBV(OUle, tc.Const(BV(64), uint64(w)), y64)
	var cnt *Term
	if y.sort.W >= w {
		cnt = tc.Extract(y, w-1, 0)
	} else {
		cnt = tc.ZExt(y, w)
	}
	var res, fill *Term
	switch {
	case op == token.SHL:
		res, fill = tc.BinBV(OShl, x, cnt), tc.Const(x.sort, 0)
	case signed:
		res = tc.BinBV(OAShr, x, cnt)
		fill = tc.BinBV(OAShr, x, tc.Const(x.sort, uint64(w-1)))
	default:
		res, fill = tc.BinBV(OLShr, x, cnt), tc.Const(x.sort, 0)
	}
	return tc.Ite(big, fill, res)
}

func (ex *Exec) unop(x *ssa.UnOp, v Value) Value {
	tc := ex.tc
	switch x.Op {
	case token.MUL:
		return ex.load(v.(PtrV), x.Type())
	case token.NOT:
		return tc.Not(v.(*Term))
	case token.SUB:
		t := v.(*Term)
		if t.sort.K == SBV {
			return tc.UnBV(ONeg, t)
		}
		return tc.FUn(OFNeg, t)
	case token.XOR:
		return tc.UnBV(OBNot, v.(*Term))
	case token.ARROW:
		ex.inconclusive("channel receive")
	}
	ex.inconclusive(fmt.Sprintf("unsupported unop %v", x.Op))
	return nil
}

// ---------------------------------------------------------------------------
// conversions

func (ex *Exec) convert(v Value, from, to types.Type) Value {
	tc := ex.tc
	fu, tu := from.Underlying(), to.Underlying()
	// pointer / unsafe.Pointer conversions
	if p, ok := v.(PtrV); ok {
		if tb, ok := tu.(*types.Basic); ok && tb.Kind() == types.UnsafePointer {
			return p
		}
		if tp, ok := tu.(*types.Pointer); ok {
			return ex.retypePtr(p, tp.Elem())
		}
		if tb, ok := tu.(*types.Basic); ok && tb.Kind() == types.Uintptr {
			ex.inconclusive("pointer to uintptr conversion")
		}
	}
	switch x := v.(type) {
	case *Term:
		ts, tsigned, ok := scalarSort(to)
		if !ok {
			// integer -> string
			if tb, ok := tu.(*types.Basic); ok && tb.Info()&types.IsString != 0 {
				if x.op == OConst {
					r := rune(sext(x.cval, x.sort.W))
					if !isSigned(from) {
						if x.cval > 0x10FFFF {
							r = 0xFFFD
						} else {
							r = rune(x.cval)
						}
					}
					return ex.strConst(string(r))
				}
				// symbolic: fork on the UTF-8 encoding length
				w64 := ex.toWidth(x, 64, isSigned(from))
				c := func(v uint64) *Term { return tc.Const(BV(64), v) }
				b8 := func(t *Term) *Term { return tc.Extract(t, 7, 0) }
				or := func(a *Term, v uint64) *Term { return tc.BinBV(OBOr, a, c(v)) }
				shr := func(a *Term, n uint64) *Term { return tc.BinBV(OLShr, a, c(n)) }
				low6 := func(a *Term) *Term { return tc.BinBV(OBAnd, a, c(0x3f)) }
				if ex.branch(tc.CmpBV(OUlt, w64, c(0x80))) {
					return &StrV{b: []*Term{b8(w64)}}
				}
				if ex.branch(tc.CmpBV(OUlt, w64, c(0x800))) {
					return &StrV{b: []*Term{b8(or(shr(w64, 6), 0xC0)), b8(or(low6(w64), 0x80))}}
				}
				bad := tc.Or(tc.CmpBV(OUlt, c(0x10FFFF), w64), tc.And(tc.CmpBV(OUle, c(0xD800), w64), tc.CmpBV(OUle, w64, c(0xDFFF))))
				if ex.branch(bad) {
					return ex.strConst("\uFFFD")
				}
				if ex.branch(tc.CmpBV(OUlt, w64, c(0x10000))) {
					return &StrV{b: []*Term{b8(or(shr(w64, 12), 0xE0)), b8(or(low6(shr(w64, 6)), 0x80)), b8(or(low6(w64), 0x80))}}
				}
				return &StrV{b: []*Term{b8(or(shr(w64, 18), 0xF0)), b8(or(low6(shr(w64, 12)), 0x80)), b8(or(low6(shr(w64, 6)), 0x80)), b8(or(low6(w64), 0x80))}}
			}
			ex.inconclusive(fmt.Sprintf("convert term to %v", to))
		}
		_, fsigned, _ := scalarSort(from)
		_ = tsigned
		switch {
		case x.sort.K == SBV && ts.K == SBV:
			if ts.W <= x.sort.W {
				return tc.Extract(x, ts.W-1, 0)
			}
			if fsigned {
				return tc.SExt(x, ts.W)
			}
			return tc.ZExt(x, ts.W)
		case x.sort.K == SBV && (ts.K == SF32 || ts.K == SF64):
			if fsigned {
				return tc.Conv(OSToF, x, ts)
			}
			return tc.Conv(OUToF, x, ts)
		case (x.sort.K == SF32 || x.sort.K == SF64) && ts.K == SBV:
			if x.op == OConst {
				if _, ok := foldOp(OFToS, ts, 0, 0, []*Term{x}); !ok {
					// out-of-range float->int: implementation-specific in Go; amd64 yields 0x8000...
					f := math.Float64frombits(x.cval)
					if x.sort.K == SF32 {
						f = float64(math.Float32frombits(uint32(x.cval)))
					}
					var r uint64
					switch ts.W {
					case 64:
						if tsigned {
							r = uint64(int64(f))
						} else {
							r = uint64(f)
						}
					case 32:
						if tsigned {
							r = uint64(int32(f))
						} else {
							r = uint64(uint32(f))
						}
					default:
						ex.inconclusive("out-of-range float to small int conversion")
					}
					return tc.Const(ts, r)
				}
			}
			if tsigned {
				return tc.Conv(OFToS, x, ts)
			}
			return tc.Conv(OFToU, x, ts)
		case x.sort.K == SBool && ts.K == SBool:
			return x
		default:
			if x.sort == ts {
				return x
			}
			return tc.Conv(OFToF, x, ts)
		}
	case *StrV:
		switch t := tu.(type) {
		case *types.Slice:
			eb, _ := t.Elem().Underlying().(*types.Basic)
			if eb != nil && eb.Kind() == types.Uint8 {
				return ex.bytesToSlice(x.b, t.Elem())
			}
			if eb != nil && eb.Kind() == types.Int32 {
				if cs, ok := x.concrete(); ok {
					rs := []rune(cs)
					arr := ex.newArrayCell(t.Elem(), len(rs))
					for i, r := range rs {
						ex.kid(arr, i).v = tc.Const(BV(32), uint64(uint32(r)))
					}
					return SliceV{arr: arr, len: len(rs), cap: len(rs)}
				}
				ex.inconclusive("[]rune(symbolic string)")
			}
		case *types.Basic:
			if t.Info()&types.IsString != 0 {
				return x
			}
		}
	case SliceV:
		if tb, ok := tu.(*types.Basic); ok && tb.Info()&types.IsString != 0 {
			st := fu.(*types.Slice)
			eb, _ := st.Elem().Underlying().(*types.Basic)
			if eb != nil && eb.Kind() == types.Uint8 {
				return &StrV{b: ex.sliceBytes(x)}
			}
			if eb != nil && eb.Kind() == types.Int32 {
				var sb strings.Builder
				for _, e := range ex.sliceElems(x) {
					t := e.(*Term)
					if t.op != OConst {
						ex.inconclusive("string([]rune) symbolic")
					}
					sb.WriteRune(rune(int32(t.cval)))
				}
				return ex.strConst(sb.String())
			}
		}
		if _, ok := tu.(*types.Slice); ok {
			return x
		}
		if ta, ok := tu.(*types.Array); ok { // slice to array conversion
			n := int(ta.Len())
			if x.len < n {
				ex.goPanic("cannot convert slice to array: length too short")
			}
			e := make([]Value, n)
			for i := range e {
				e[i] = ex.loadCell(ex.kid(x.arr, x.off+i))
			}
			return ArrayV{e}
		}
	case FuncV, MapV, ChanV, StructV, ArrayV, IfaceV:
		return v
	}
	ex.inconclusive(fmt.Sprintf("unsupported conversion %v -> %v (%T)", from, to, v))
	return nil
}

// retypePtr implements pointer casts through unsafe.Pointer.
func (ex *Exec) retypePtr(p PtrV, elem types.Type) Value {
	if p.c == nil {
		return p
	}
	if p.idx != nil {
		ex.inconclusive("unsafe cast of symbolic element pointer")
	}
	c := p.c
	if types.Identical(c.typ, elem) {
		return PtrV{c: c}
	}
	// container-of: pointer to field 0 -> enclosing object
	for q := c; q.parent != nil && q.idx == 0; q = q.parent {
		if types.Identical(q.parent.typ, elem) {
			return PtrV{c: q.parent}
		}
	}
	// pointer to object -> pointer to its first field (recursively)
	for q := c; q.kids != nil && len(q.kids) > 0; {
		q = q.kids[0]
		if types.Identical(q.typ, elem) {
			return PtrV{c: q}
		}
	}
	// same underlying layout (named vs unnamed)
	if types.Identical(c.typ.Underlying(), elem.Underlying()) {
		return PtrV{c: c}
	}
	return PtrV{c: c, view: elem}
}

// ---------------------------------------------------------------------------
// interfaces

func (ex *Exec) typeAssert(x *ssa.TypeAssert, v Value) Value {
	iv, ok := v.(IfaceV)
	if !ok {
		ex.inconclusive(fmt.Sprintf("type assert on %T", v))
	}
	tc := ex.tc
	okv := false
	var res Value
	if iv.t != nil {
		if it, isI := x.AssertedType.Underlying().(*types.Interface); isI {
			if types.Implements(iv.t, it) {
				okv, res = true, iv
			}
		} else if types.Identical(iv.t, x.AssertedType) {
			okv, res = true, iv.v
		}
	}
	if x.CommaOk {
		if !okv {
			res = ex.zero(x.AssertedType)
		}
		return TupleV{res, tc.Bool(okv)}
	}
	if !okv {
		ex.goPanic(fmt.Sprintf("interface conversion: %v is not %v", iv.t, x.AssertedType))
	}
	return res
}
