package main

// One long-lived SMT solver process per worker (z3 -in / z3-new -in / cvc5 --incremental),
// push/pop scopes, DAG-preserving definitions, get-value model parsing.
// Any "(error" line makes the query inconclusive (result "error").

import (
	"bufio"
	"fmt"
	"io"
	"math"
	"os"
	"os/exec"
	"strconv"
	"strings"
	"time"
)

type SolverStats struct {
	Queries, Sat, Unsat, Unknown, Errors int
	Restarts                             int
	Time                                 time.Duration
}

type Solver struct {
	kind    string
	cmd     *exec.Cmd
	in      io.WriteCloser
	out     *bufio.Reader
	level   int
	defined map[int]int    // term id -> level at which it was defined
	defLog  [][]int        // per level: term ids defined there
	Stats   SolverStats
	log     *bufio.Writer // optional transcript
	timeout int           // ms per check
	broken  bool          // a protocol error occurred: the worker restarts the solver and repeats the path
	dead    bool
}

func solverArgv(kind string, timeoutMs int) []string {
	switch kind {
	case "z3":
		return []string{"/usr/bin/z3", "-in", fmt.Sprintf("-t:%d", timeoutMs)}
	case "z3-new":
		return []string{"z3-new", "-in", fmt.Sprintf("-t:%d", timeoutMs)}
	case "cvc5":
		return []string{"cvc5", "--incremental", "--produce-models", fmt.Sprintf("--tlimit-per=%d", timeoutMs)}
	}
	panic("unknown solver " + kind)
}

func NewSolver(kind string, timeoutMs int, transcript string) (*Solver, error) {
	argv := solverArgv(kind, timeoutMs)
	cmd := exec.Command(argv[0], argv[1:]...)
	in, err := cmd.StdinPipe()
	if err != nil {
		return nil, err
	}
	outp, err := cmd.StdoutPipe()
	if err != nil {
		return nil, err
	}
	cmd.Stderr = cmd.Stdout
	if err := cmd.Start(); err != nil {
		return nil, err
	}
	s := &Solver{kind: kind, cmd: cmd, in: in, out: bufio.NewReaderSize(outp, 1<<16), defined: map[int]int{}, defLog: [][]int{nil}, timeout: timeoutMs}
	if transcript != "" {
		f, err := os.Create(transcript)
		if err == nil {
			s.log = bufio.NewWriter(f)
		}
	}
	s.send("(set-option :produce-models true)")
	if kind == "cvc5" {
		s.send("(set-logic ALL)")
	}
	return s, nil
}

func (s *Solver) Close() {
	if s.cmd != nil && !s.dead {
		s.in.Close()
		s.cmd.Process.Kill()
		s.cmd.Wait()
		s.dead = true
	}
	if s.log != nil {
		s.log.Flush()
	}
}

func (s *Solver) send(line string) {
	if s.log != nil {
		s.log.WriteString(line)
		s.log.WriteByte('\n')
	}
	io.WriteString(s.in, line)
	io.WriteString(s.in, "\n")
}

func (s *Solver) Reset() {
	s.send("(reset)")
	s.send("(set-option :produce-models true)")
	if s.kind == "cvc5" {
		s.send("(set-logic ALL)")
	}
	s.level = 0
	s.defined = map[int]int{}
	s.defLog = [][]int{nil}
}

func (s *Solver) Push() {
	s.send("(push 1)")
	s.level++
	s.defLog = append(s.defLog, nil)
}

func (s *Solver) Pop() {
	if s.level == 0 {
		panic("solver pop at level 0")
	}
	s.send("(pop 1)")
	for _, id := range s.defLog[s.level] {
		delete(s.defined, id)
	}
	s.defLog = s.defLog[:s.level]
	s.level--
}

func (s *Solver) Level() int { return s.level }

// define emits declarations/definitions for every not-yet-defined subterm of t and
// returns the name by which t can be referenced.
func (s *Solver) define(t *Term) string {
	if t.op == OConst {
		return t.constSMT()
	}
	if _, ok := s.defined[t.id]; ok {
		return s.refName(t)
	}
	// iterative post-order to avoid deep recursion on long chains
	type fr struct {
		t *Term
		i int
	}
	stack := []fr{{t, 0}}
	for len(stack) > 0 {
		top := &stack[len(stack)-1]
		if top.t.op == OConst {
			stack = stack[:len(stack)-1]
			continue
		}
		if _, ok := s.defined[top.t.id]; ok {
			stack = stack[:len(stack)-1]
			continue
		}
		if top.i < len(top.t.args) {
			a := top.t.args[top.i]
			top.i++
			if a.op != OConst {
				if _, ok := s.defined[a.id]; !ok {
					stack = append(stack, fr{a, 0})
				}
			}
			continue
		}
		x := top.t
		stack = stack[:len(stack)-1]
		if x.op == OVar {
			s.send(fmt.Sprintf("(declare-const %s %s)", x.name, x.sort.SMT()))
		} else {
			// declare + equate (z3 4.8.12 re-expands define-fun macros on every check: 50x slower)
			s.send(fmt.Sprintf("(declare-const t%d %s)", x.id, x.sort.SMT()))
			s.send(fmt.Sprintf("(assert (= t%d %s))", x.id, x.headSMT(s.refName)))
		}
		s.defined[x.id] = s.level
		s.defLog[s.level] = append(s.defLog[s.level], x.id)
	}
	return s.refName(t)
}

func (s *Solver) refName(t *Term) string {
	switch t.op {
	case OConst:
		return t.constSMT()
	case OVar:
		return t.name
	}
	return "t" + strconv.Itoa(t.id)
}

func (s *Solver) Assert(t *Term) {
	n := s.define(t)
	s.send("(assert " + n + ")")
}

// readResponse reads one s-expression or atom from the solver output.
func (s *Solver) readResponse() (string, error) {
	var sb strings.Builder
	depth := 0
	started := false
	for {
		line, err := s.out.ReadString('\n')
		if err != nil {
			s.dead = true
			return sb.String(), err
		}
		tl := strings.TrimSpace(line)
		if tl == "" && !started {
			continue
		}
		started = true
		sb.WriteString(line)
		inStr := false
		for _, ch := range line {
			switch {
			case ch == '"':
				inStr = !inStr
			case inStr:
			case ch == '(':
				depth++
			case ch == ')':
				depth--
			}
		}
		if depth <= 0 {
			return strings.TrimSpace(sb.String()), nil
		}
	}
}

// Check returns "sat", "unsat", "unknown" or "error".
func (s *Solver) Check() string {
	if s.dead {
		return "error"
	}
	t0 := time.Now()
	s.send("(check-sat)")
	r, err := s.readResponse()
	s.Stats.Time += time.Since(t0)
	s.Stats.Queries++
	if err != nil {
		s.Stats.Errors++
		s.broken = true
		return "error"
	}
	switch {
	case r == "sat":
		s.Stats.Sat++
		return "sat"
	case r == "unsat":
		s.Stats.Unsat++
		return "unsat"
	case strings.HasPrefix(r, "unknown") || strings.HasPrefix(r, "timeout"):
		s.Stats.Unknown++
		return "unknown"
	}
	s.Stats.Errors++
	s.broken = true // the command/response pairing can no longer be trusted (e.g. z3 "push canceled")
	if s.log != nil {
		s.log.WriteString("; RESPONSE: " + r + "\n")
	}
	fmt.Fprintf(os.Stderr, "solver %s: unexpected response %q\n", s.kind, r)
	return "error"
}

// GetValues queries the current model for the given variables.
func (s *Solver) GetValues(vars []*Term) (Model, error) {
	m := Model{}
	const chunk = 200
	for i := 0; i < len(vars); i += chunk {
		j := i + chunk
		if j > len(vars) {
			j = len(vars)
		}
		var names []string
		for _, v := range vars[i:j] {
			if _, ok := s.defined[v.id]; ok {
				names = append(names, v.name)
			}
		}
		if len(names) == 0 {
			continue
		}
		s.send("(get-value (" + strings.Join(names, " ") + "))")
		r, err := s.readResponse()
		if err != nil {
			return nil, err
		}
		if strings.Contains(r, "(error") {
			s.broken = true
			return nil, fmt.Errorf("get-value: %s", r)
		}
		if err := parseValues(r, m); err != nil {
			return nil, err
		}
	}
	return m, nil
}

// ---- s-expression model parsing ----

type sx struct {
	atom string
	list []*sx
}

func parseSx(s string, pos *int) *sx {
	for *pos < len(s) && (s[*pos] == ' ' || s[*pos] == '\n' || s[*pos] == '\t' || s[*pos] == '\r') {
		*pos++
	}
	if *pos >= len(s) {
		return nil
	}
	if s[*pos] == '(' {
		*pos++
		n := &sx{list: []*sx{}}
		for {
			for *pos < len(s) && (s[*pos] == ' ' || s[*pos] == '\n' || s[*pos] == '\t' || s[*pos] == '\r') {
				*pos++
			}
			if *pos >= len(s) {
				return n
			}
			if s[*pos] == ')' {
				*pos++
				return n
			}
			c := parseSx(s, pos)
			if c == nil {
				return n
			}
			n.list = append(n.list, c)
		}
	}
	st := *pos
	for *pos < len(s) && !strings.ContainsRune(" \n\t\r()", rune(s[*pos])) {
		*pos++
	}
	return &sx{atom: s[st:*pos]}
}

func bvAtom(a string) (uint64, int, bool) {
	if strings.HasPrefix(a, "#x") {
		v, err := strconv.ParseUint(a[2:], 16, 64)
		return v, 4 * (len(a) - 2), err == nil
	}
	if strings.HasPrefix(a, "#b") {
		v, err := strconv.ParseUint(a[2:], 2, 64)
		return v, len(a) - 2, err == nil
	}
	return 0, 0, false
}

func sxValue(v *sx) (uint64, error) {
	if v.list == nil {
		switch v.atom {
		case "true":
			return 1, nil
		case "false":
			return 0, nil
		}
		if x, _, ok := bvAtom(v.atom); ok {
			return x, nil
		}
		return 0, fmt.Errorf("bad value atom %q", v.atom)
	}
	l := v.list
	if len(l) == 4 && l[0].atom == "fp" {
		sg, _, _ := bvAtom(l[1].atom)
		ex, ew, _ := bvAtom(l[2].atom)
		mn, mw, _ := bvAtom(l[3].atom)
		return sg<<uint(ew+mw) | ex<<uint(mw) | mn, nil
	}
	if len(l) == 4 && l[0].atom == "_" {
		// (_ +zero 8 24) (_ -zero ..) (_ +oo ..) (_ -oo ..) (_ NaN ..) (_ bv10 32)
		if strings.HasPrefix(l[1].atom, "bv") {
			x, err := strconv.ParseUint(l[1].atom[2:], 10, 64)
			return x, err
		}
		eb, _ := strconv.Atoi(l[2].atom)
		is32 := eb == 8
		var f float64
		switch l[1].atom {
		case "+zero":
			f = 0
		case "-zero":
			f = math.Copysign(0, -1)
		case "+oo":
			f = math.Inf(1)
		case "-oo":
			f = math.Inf(-1)
		case "NaN":
			f = math.NaN()
		default:
			return 0, fmt.Errorf("bad fp special %q", l[1].atom)
		}
		if is32 {
			if f != f {
				return 0x7fc00000, nil
			}
			return uint64(math.Float32bits(float32(f))), nil
		}
		if f != f {
			return 0x7ff8000000000000, nil
		}
		return math.Float64bits(f), nil
	}
	if len(l) == 3 && l[0].atom == "_" && strings.HasPrefix(l[1].atom, "bv") {
		x, err := strconv.ParseUint(l[1].atom[2:], 10, 64)
		return x, err
	}
	return 0, fmt.Errorf("bad value sexpr")
}

func parseValues(r string, m Model) error {
	pos := 0
	root := parseSx(r, &pos)
	if root == nil || root.list == nil {
		return fmt.Errorf("bad get-value response %q", r)
	}
	for _, p := range root.list {
		if len(p.list) != 2 {
			return fmt.Errorf("bad pair in %q", r)
		}
		v, err := sxValue(p.list[1])
		if err != nil {
			return fmt.Errorf("%v in %q", err, r)
		}
		m[p.list[0].atom] = v
	}
	return nil
}
