package main

import (
	"bufio"
	"bytes"
	"encoding/json"
	"flag"
	"fmt"
	"os"
	"os/exec"
	"path/filepath"
	"regexp"
	"sort"
	"strconv"
	"strings"
	"time"
)

type RunOutput struct {
	Pkg       string           `json:"pkg"`
	Tier      string           `json:"tier"`
	LoadS     float64          `json:"load_s"`
	Results   []*HarnessResult `json:"results"`
	SrcFiles  []string         `json:"src_files"`
	Solver    string           `json:"solver"`
	DroppedFiles []string      `json:"dropped_files,omitempty"`
}

func main() {
	if len(os.Args) < 2 {
		fmt.Fprintln(os.Stderr, "usage: gosym run|replay|list ...")
		os.Exit(2)
	}
	switch os.Args[1] {
	case "run":
		cmdRun(os.Args[2:])
	case "replay":
		cmdReplay(os.Args[2:])
	default:
		fmt.Fprintln(os.Stderr, "unknown command", os.Args[1])
		os.Exit(2)
	}
}

func loadKnown(path string) map[string]bool {
	known := map[string]bool{}
	if path == "" {
		return known
	}
	b, err := os.ReadFile(path)
	if err != nil {
		return known
	}
	var kf struct {
		Open []struct {
			ID string `json:"id"`
		} `json:"open"`
	}
	if err := json.Unmarshal(b, &kf); err != nil {
		fmt.Fprintln(os.Stderr, "bad known findings file:", err)
		os.Exit(3)
	}
	for _, o := range kf.Open {
		known[o.ID] = true
	}
	return known
}

func cmdRun(args []string) {
	fs := flag.NewFlagSet("run", flag.ExitOnError)
	repo := fs.String("repo", "/repo", "repository root")
	hroot := fs.String("harness-root", "/verif/harness", "harness overlay root")
	pkg := fs.String("pkg", "", "package dir relative to repo (e.g. internal/glob)")
	run := fs.String("run", ".*", "regexp selecting harness functions")
	tier := fs.String("tier", "quick", "quick|thorough")
	out := fs.String("out", "", "result JSON path")
	knownPath := fs.String("known", "", "known findings file")
	workers := fs.Int("workers", 16, "parallel workers")
	solver := fs.String("solver", "z3", "z3|z3-new|cvc5")
	witnessFile := fs.String("witness", "", "interpreter mode: batch JSON [{harness,witness}] (first matching item is run concretely)")
	fs.Parse(args)
	t0 := time.Now()
	ld, err := LoadPackage(*repo, *hroot, *pkg)
	if err != nil {
		fmt.Fprintln(os.Stderr, "LOAD-ERROR:", err)
		os.Exit(3)
	}
	loadS := time.Since(t0).Seconds()
	re := regexp.MustCompile(*run)
	known := loadKnown(*knownPath)
	base := defaultConfig()
	base.Workers = *workers
	base.Solver = *solver
	base.Tier = *tier
	if v, err := strconv.Atoi(os.Getenv("GOSYM_MAXPATHS")); err == nil {
		base.MaxPaths = v
	}
	ro := &RunOutput{Pkg: *pkg, Tier: *tier, LoadS: loadS, Solver: *solver}
	for f := range ld.srcFiles {
		ro.SrcFiles = append(ro.SrcFiles, f)
	}
	sort.Strings(ro.SrcFiles)
	for file, hs := range ld.dropped {
		ro.DroppedFiles = append(ro.DroppedFiles, file)
		for _, h := range hs {
			if re.MatchString(h) {
				msg := "harness file " + file + " no longer compiles against the edited tree"
				ro.Results = append(ro.Results, &HarnessResult{Harness: h, Status: "inconclusive", Inconclusive: []string{msg}, PathsByEnd: map[string]int{}, Asserts: map[string]int{}, Reach: map[string]int{}, Bounds: map[string]string{}})
				fmt.Fprintf(os.Stderr, "%-40s %-12s %s\n", h, "inconclusive", msg)
			}
		}
	}
	sort.Strings(ro.DroppedFiles)
	for _, h := range ld.harnesses {
		if !re.MatchString(h.Name) {
			continue
		}
		if t, ok := h.Cfg["tier"]; ok && t != *tier {
			continue
		}
		if h.Fn == nil {
			fmt.Fprintln(os.Stderr, "harness without SSA function:", h.Name)
			os.Exit(3)
		}
		var wit []WitnessVal
		if *witnessFile != "" {
			var items []BatchItem
			b, _ := os.ReadFile(*witnessFile)
			json.Unmarshal(b, &items)
			for _, it := range items {
				if it.Harness == h.Name {
					wit = it.Witness
					break
				}
			}
			base.Workers = 1
		}
		r := RunHarnessW(ld, h, base, known, wit)
		ro.Results = append(ro.Results, r)
		fmt.Fprintf(os.Stderr, "%-40s %-12s paths=%d steps=%d queries=%d (unk %d) solver=%.1fs wall=%.1fs\n", r.Harness, r.Status, r.Paths, r.Steps, r.QTotal, r.QUnknown, r.SolverS, r.WallS)
		if os.Getenv("GOSYM_NOTES") != "" {
			for _, s := range r.Notes {
				fmt.Fprintln(os.Stderr, "   note:", s)
			}
		}
		for _, s := range r.Inconclusive {
			fmt.Fprintln(os.Stderr, "   inconclusive:", s)
		}
		for _, v := range r.Violations {
			fmt.Fprintf(os.Stderr, "   violation: %s known=%q %s obs=%v\n", v.Assert, v.Known, v.Msg, v.Obs)
		}
	}
	if *out != "" {
		os.MkdirAll(filepath.Dir(*out), 0o755)
		if err := writeJSON(*out, ro); err != nil {
			fmt.Fprintln(os.Stderr, err)
			os.Exit(3)
		}
	}
}

// ---------------------------------------------------------------------------
// native replay: the same harness compiled into the real package with `go test -overlay`

type BatchItem struct {
	Harness string       `json:"harness"`
	Witness []WitnessVal `json:"witness"`
}

type ReplayResult struct {
	Harness     string   `json:"harness"`
	End         string   `json:"end"`
	FailedAsserts []string `json:"failed_asserts"`
	Obs         []string `json:"obs"`
	Panic       string   `json:"panic,omitempty"`
	Diverged    bool     `json:"diverged"`
	DivergeMsg  string   `json:"diverge_msg,omitempty"`
}

func cmdReplay(args []string) {
	fs := flag.NewFlagSet("replay", flag.ExitOnError)
	repo := fs.String("repo", "/repo", "repository root")
	hroot := fs.String("harness-root", "/verif/harness", "harness overlay root")
	pkg := fs.String("pkg", "", "package dir relative to repo")
	batch := fs.String("batch", "", "batch JSON: [{harness, witness}]")
	out := fs.String("out", "", "result JSON")
	scratch := fs.String("scratch", "/verif/out/replay", "scratch dir for generated files")
	knownPath := fs.String("known", "", "known findings file")
	fs.Parse(args)
	res, raw, err := NativeReplay(*repo, *hroot, *pkg, *batch, *scratch, *knownPath)
	if err != nil {
		fmt.Fprintln(os.Stderr, "REPLAY-ERROR:", err)
		fmt.Fprintln(os.Stderr, raw)
		os.Exit(3)
	}
	if *out != "" {
		writeJSON(*out, res)
	} else {
		b, _ := json.MarshalIndent(res, "", " ")
		fmt.Println(string(b))
	}
}

// NativeReplay builds and runs the batch natively. Harness files that no longer compile against the current tree
// (and the files depending on them) are left out and the build is repeated, as the engine's loader does.
func NativeReplay(repo, hroot, relPkg, batchPath, scratch, knownPath string) ([]ReplayResult, string, error) {
	skip := map[string]bool{}
	errRe := regexp.MustCompile(`(?m)^(/\S+\.go):\d+:\d+: `)
	hdirAbs, _ := filepath.Abs(filepath.Join(hroot, relPkg))
	for attempt := 0; ; attempt++ {
		res, raw, err := nativeReplayOnce(repo, hroot, relPkg, batchPath, scratch, knownPath, skip)
		if err == nil || attempt >= 8 || !strings.Contains(raw, "[build failed]") {
			return res, raw, err
		}
		progress := false
		for _, m := range errRe.FindAllStringSubmatch(raw, -1) {
			f, _ := filepath.Abs(m[1])
			if filepath.Dir(f) == hdirAbs && !skip[filepath.Base(f)] {
				skip[filepath.Base(f)] = true
				progress = true
				fmt.Fprintf(os.Stderr, "native replay: harness file %s no longer compiles against this tree: left out\n", filepath.Base(f))
			}
		}
		if !progress {
			return res, raw, err
		}
	}
}

func nativeReplayOnce(repo, hroot, relPkg, batchPath, scratch, knownPath string, skip map[string]bool) ([]ReplayResult, string, error) {
	hdir := filepath.Join(hroot, relPkg)
	ents, err := os.ReadDir(hdir)
	if err != nil {
		return nil, "", err
	}
	sdir := filepath.Join(scratch, strings.ReplaceAll(relPkg, "/", "_"))
	os.MkdirAll(sdir, 0o755)
	replace := map[string]string{}
	pkgName := ""
	var hnames []string
	hre := regexp.MustCompile(`(?m)^func (VH_\w+)\(\)`)
	for _, e := range ents {
		n := e.Name()
		if !strings.HasSuffix(n, ".go") || strings.HasSuffix(n, "_engine.go") || skip[n] {
			continue
		}
		src := filepath.Join(hdir, n)
		b, err := os.ReadFile(src)
		if err != nil {
			return nil, "", err
		}
		dstName := "zz_verif_" + n
		if strings.HasSuffix(n, "_test.go") {
			dstName = "zz_verif_" + n
		}
		replace[filepath.Join(repo, relPkg, dstName)] = src
		if m := regexp.MustCompile(`(?m)^package (\w+)`).FindSubmatch(b); m != nil && !strings.HasSuffix(n, "_test.go") {
			pkgName = string(m[1])
		}
		for _, m := range hre.FindAllSubmatch(b, -1) {
			hnames = append(hnames, string(m[1]))
		}
	}
	if pkgName == "" {
		return nil, "", fmt.Errorf("no harness files in %s", hdir)
	}
	rt := strings.Replace(rtNativeSrc, "package PKG", "package "+pkgName, 1)
	rtFile := filepath.Join(sdir, "rt_native.go")
	if err := os.WriteFile(rtFile, []byte(rt), 0o644); err != nil {
		return nil, "", err
	}
	replace[filepath.Join(repo, relPkg, "zz_verif_rt.go")] = rtFile
	var tb strings.Builder
	tb.WriteString("package " + pkgName + "\n\nimport \"testing\"\n\nfunc TestVerifReplay(t *testing.T) {\n\tvRunBatch(map[string]func(){\n")
	sort.Strings(hnames)
	for _, h := range hnames {
		fmt.Fprintf(&tb, "\t\t%q: %s,\n", h, h)
	}
	tb.WriteString("\t})\n}\n")
	testFile := filepath.Join(sdir, "replay_test.go")
	os.WriteFile(testFile, []byte(tb.String()), 0o644)
	replace[filepath.Join(repo, relPkg, "zz_verif_replay_test.go")] = testFile
	// replay-only source patches (crash / yield points): textual substitutions on the CURRENT source
	if pb, err := os.ReadFile(filepath.Join(hdir, "native_patch.json")); err == nil {
		var patches map[string][][2]string
		if err := json.Unmarshal(pb, &patches); err != nil {
			return nil, "", fmt.Errorf("native_patch.json: %v", err)
		}
		for rel, subs := range patches {
			src, err := os.ReadFile(filepath.Join(repo, rel))
			if err != nil {
				return nil, "", err
			}
			txt := string(src)
			for _, sub := range subs {
				txt = strings.ReplaceAll(txt, sub[0], sub[1])
			}
			pf := filepath.Join(sdir, "patched_"+strings.ReplaceAll(rel, "/", "_"))
			if err := os.WriteFile(pf, []byte(txt), 0o644); err != nil {
				return nil, "", err
			}
			replace[filepath.Join(repo, rel)] = pf
		}
	}
	ov, _ := json.Marshal(map[string]interface{}{"Replace": replace})
	ovFile := filepath.Join(sdir, "overlay.json")
	os.WriteFile(ovFile, ov, 0o644)

	// known ids for vknown()
	knownFile := filepath.Join(sdir, "known_ids.json")
	var ids []string
	for id := range loadKnown(knownPath) {
		ids = append(ids, id)
	}
	kb, _ := json.Marshal(ids)
	os.WriteFile(knownFile, kb, 0o644)

	absBatch, _ := filepath.Abs(batchPath)
	cmd := exec.Command("go", "test", "-vet=off", "-count=1", "-v", "-overlay", ovFile, "-run", "^TestVerifReplay$", "-timeout", "20m", "./"+relPkg)
	cmd.Dir = repo
	cmd.Env = append(os.Environ(), "GOFLAGS=-mod=mod", "GOPROXY=off", "VERIF_BATCH="+absBatch, "VERIF_KNOWN="+knownFile)
	var outb bytes.Buffer
	cmd.Stdout = &outb
	cmd.Stderr = &outb
	runErr := cmd.Run()
	raw := outb.String()
	os.WriteFile(filepath.Join(sdir, filepath.Base(batchPath)+".raw.txt"), outb.Bytes(), 0o644)
	var res []ReplayResult
	var cur *ReplayResult
	sc := bufio.NewScanner(strings.NewReader(raw))
	sc.Buffer(make([]byte, 1<<20), 1<<24)
	for sc.Scan() {
		line := sc.Text()
		switch {
		case strings.HasPrefix(line, "VBEGIN "):
			parts := strings.Fields(line)
			res = append(res, ReplayResult{Harness: parts[2]})
			cur = &res[len(res)-1]
		case cur == nil:
		case strings.HasPrefix(line, "VASSERT-FAIL "):
			cur.FailedAsserts = append(cur.FailedAsserts, strings.TrimPrefix(line, "VASSERT-FAIL "))
		case strings.HasPrefix(line, "VOBS "):
			cur.Obs = append(cur.Obs, strings.TrimPrefix(line, "VOBS "))
		case strings.HasPrefix(line, "VPANIC "):
			cur.Panic = strings.TrimPrefix(line, "VPANIC ")
		case strings.HasPrefix(line, "VDIVERGE"):
			cur.Diverged = true
			if cur.DivergeMsg == "" {
				cur.DivergeMsg = line
			}
		case strings.HasPrefix(line, "VASSUME-FAIL"):
			cur.Diverged = true
			if cur.DivergeMsg == "" {
				cur.DivergeMsg = line
			}
		case strings.HasPrefix(line, "VEND "):
			cur.End = strings.TrimPrefix(line, "VEND ")
		}
	}
	if len(res) == 0 && runErr != nil {
		return nil, raw, fmt.Errorf("go test failed: %v", runErr)
	}
	return res, raw, nil
}
