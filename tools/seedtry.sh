#!/bin/bash
# usage: seedtry.sh <seed-name> <pkg> <harness-regexp> [tier]  - runs single harnesses (engine only, no replay) on a seeded scratch worktree
V=$(cd "$(dirname "$0")/.." && pwd)
NAME=$1; PKG=$2; RUN=$3; TIER=${4:-quick}; WT=/tmp/seedtry_$NAME
git -C /repo worktree remove --force $WT >/dev/null 2>&1; rm -rf $WT
git -C /repo worktree add --detach $WT HEAD >/dev/null 2>&1 || exit 9
git -C $WT apply $V/seeded/$NAME/patch.diff || { git -C /repo worktree remove --force $WT; exit 9; }
GOFLAGS=-mod=mod GOPROXY=off $V/bin/gosym run -repo $WT -harness-root $V/harness -pkg $PKG -run "$RUN" -tier $TIER -out /tmp/seedtry_$NAME.json -known $V/known_findings.json -workers ${VERIF_WORKERS:-10} -solver z3 2>&1 | grep -E "^VH_|violation:" | head -6 | cut -c1-260
git -C /repo worktree remove --force $WT; rm -f /tmp/seedtry_$NAME.json
