#!/bin/bash
# usage: seedintake.sh <worktree-root> <property> <seed-name>   (verify independently, store, remove the worktree, run the check)
V=$(cd "$(dirname "$0")/.." && pwd)
ROOT=$1; P=$2; NAME=$3
echo "$NAME verify: $($V/tools/seedverify.sh $ROOT/$P $NAME | grep -o 'suite_exit.*' | sed 's/ok  *[^ ]* *[0-9.]*s//g' | tr -s ' ')"
git -C /repo worktree remove --force $ROOT/$P
$V/tools/seedcheck.sh $NAME $P | head -3 | cut -c1-260
