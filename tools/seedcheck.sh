#!/bin/bash
# usage: seedcheck.sh <seed-name> <property> [tier]   -- applies the seeded patch to /repo, runs the check, reverts.
set -u
NAME=$1; P=$2; TIER=${3:-quick}
D=/verif/seeded/$NAME
cd /verif
git -C /repo apply $D/patch.diff || { echo "patch does not apply"; exit 9; }
./check $P $TIER > $D/check_$P.$TIER.log 2>&1; rc=$?
git -C /repo checkout -- .
echo "seed=$NAME property=$P tier=$TIER check_exit=$rc  $(grep -c '^VIOLATION' $D/check_$P.$TIER.log) violation lines"
grep -E "^VIOLATION|^INCONCLUSIVE|^OK|^  assert" $D/check_$P.$TIER.log | head -4 | cut -c1-260
