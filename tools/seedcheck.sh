#!/bin/bash
# usage: seedcheck.sh <seed-name> <property> [tier]
# Applies the seeded patch in a scratch worktree of /repo (outside /repo and /verif), runs the check against it
# with its own out/evidence directories, removes the worktree. /repo itself and /verif/evidence are not touched,
# so several seeds (and ordinary checks) can run at the same time.
set -u
NAME=$1; P=$2; TIER=${3:-quick}
V=$(cd "$(dirname "$0")/.." && pwd)
D=$V/seeded/$NAME
WT=/tmp/seedwt_${NAME}_$P; SO=/tmp/seedout_${NAME}_$P
cd $V
git -C /repo worktree remove --force $WT >/dev/null 2>&1; rm -rf $WT $SO
git -C /repo worktree add --detach $WT HEAD >/dev/null 2>&1 || { echo "cannot create worktree"; exit 9; }
if ! git -C $WT apply $D/patch.diff; then
  echo "seed=$NAME property=$P patch does not apply"; git -C /repo worktree remove --force $WT; exit 9
fi
VERIF_REPO=$WT VERIF_OUT=$SO VERIF_EVIDENCE=$SO/evidence ./check $P $TIER > $D/check_$P.$TIER.log 2>&1; rc=$?
git -C /repo worktree remove --force $WT >/dev/null 2>&1; rm -rf $WT $SO
echo "seed=$NAME property=$P tier=$TIER check_exit=$rc  $(grep -c '^VIOLATION' $D/check_$P.$TIER.log) violation lines"
grep -E "^VIOLATION|^INCONCLUSIVE|^OK|^  assert" $D/check_$P.$TIER.log | head -4 | cut -c1-260
