#!/usr/bin/env python3
"""usage: mkseedtasks.py <worktree-root> <focus.json>
Writes SEED_TASK.md (property text + instructions only, nothing about the checks) into <root>/<id>/ for each id in focus.json."""
import json, sys, os
root, focusfile = sys.argv[1], sys.argv[2]
focus = json.load(open(focusfile))
V = os.path.dirname(os.path.dirname(os.path.abspath(__file__)))
T = """# Task: seed a property-breaking change into tidwall/tile38 (mutation for testing a verifier)

You are working in a scratch git worktree of tidwall/tile38 (Go): `{wt}`. Work ONLY inside this directory.
Never touch /repo or /verif and do not read anything under /verif.

Shell setup for every command (offline sandbox): `export GOFLAGS=-mod=mod GOPROXY=off` (do NOT set GOSUMDB or
GOTOOLCHAIN). Build: `go build ./...`. Full existing suite (takes ~30-60 s): `go test -vet=off -count=1 -timeout 25m ./...`.
(Two existing integration tests - fence/roaming_live and follower/follow - are occasionally flaky on their own, and other
people run the same suite on this machine at the same time, so a "bind: address already in use" can happen; re-run once if
one of those fails. Do NOT use `git stash` - the stash is shared between worktrees; use `git diff > /tmp/x.patch; git apply -R`.)

## The property (of the UNCHANGED code)

**{id} - {title}**

{statement}

Quantified over: {q}

Where it lives (anchors): {files}

## What to produce

A small, realistic change to the tile38 source (non-test .go files) - the kind of edit a developer could make as an
"optimisation", "clean-up", "refactor" or "bug fix" - such that:

1. the project still compiles and **the whole existing test suite still passes** (run it, all packages);
2. the property above is **violated** by the changed code;
3. the violation needs something specific to manifest - a particular interleaving, a crash or fault at a particular point,
   a multi-step sequence of operations, an unusual input/boundary value, or two cooperating sites that each look fine alone.
   NOT something ordinary use would expose at once, and not a blatant break (don't just delete a feature).
4. Prefer the part of the property described here (less obvious territory): **{focus}**.

Do not edit, delete or weaken any existing test. Keep the change small (a few lines, at most ~30).

Also write a demonstration: ONE new Go test file named `zz_seed_demo_test.go` placed in the package directory where it is
most convenient (e.g. `tests/` which has an in-process mock server: `mockOpenServer(MockServerOptions{{Silent:true, Metrics:false}})`,
`mc.Do(...)`, `mc.DoBatch`, see tests/mock_test.go and tests/*_test.go for usage; call `mockCleanup(true)` before and after;
or `internal/server/`, `internal/collection/`, ... for in-package tests). It must contain exactly one top-level test
`func TestSeedDemo(t *testing.T)` which **FAILS with your change and PASSES on the unchanged code**. It must be deterministic
(if the violation needs an interleaving or a crash point, force it in the demo, e.g. with goroutines + synchronisation,
truncating files, etc.).

Verify all of this yourself:
  a. with the change: `go build ./... && go test -vet=off -count=1 -timeout 25m -skip '^TestSeedDemo$' ./...` -> all ok
  b. with the change: `go test -vet=off -count=1 -run '^TestSeedDemo$' ./<pkg>/` -> FAIL
  c. with the source change reverted (keep the demo file) -> the demo PASSES; then re-apply the change.

Finally write `{wt}/SEED_NOTES.md`: the change, why it breaks the property, what exactly is needed to trigger it, how you
verified a/b/c. Leave the change applied (uncommitted) in the worktree together with the demo file and the notes.
Your final answer: 5-10 lines summarising the change, the trigger and the a/b/c results.
"""
for l in open(V + '/properties.jsonl'):
    p = json.loads(l)
    if p['id'] not in focus:
        continue
    wt = f"{root}/{p['id']}"
    os.makedirs(wt, exist_ok=True)
    open(wt + "/SEED_TASK.md", "w").write(T.format(wt=wt, id=p['id'], title=p['title'], statement=p['statement'],
        q=p['quantifier']['text'], files=", ".join(p['anchors']['files']), focus=focus[p['id']]))
print("written", len(focus))
