#!/usr/bin/env python3
"""Regenerates MANIFEST.json from checks.json (claimed properties) and properties.jsonl."""
import json, os
V = os.path.dirname(os.path.dirname(os.path.abspath(__file__)))
props = [json.loads(l) for l in open(os.path.join(V, "properties.jsonl"))]
checks = json.load(open(os.path.join(V, "checks.json")))
na_reasons = json.load(open(os.path.join(V, "tools", "not_applicable.json")))
m = {
    "version": 1,
    "setup_cmd": "cd /verif && ./check --build && cd /repo && GOFLAGS=-mod=mod GOPROXY=off go build ./... && GOFLAGS=-mod=mod GOPROXY=off go test -vet=off -count=1 -run '^$' ./internal/... ./tests/ >/dev/null",
    "hooks": {"guard": "verif", "enable": "none needed: harnesses, models and replay tests enter the build through go/packages overlays and `go test -overlay`; nothing is written into /repo",
              "baseline_off_cmd": "cd /repo && GOFLAGS=-mod=mod GOPROXY=off go test -vet=off -count=1 -timeout 25m ./...",
              "source_commits": [], "add_only": True},
    "engines": [{"name": "gosym", "path": "/verif/engine", "serves_properties": sorted(checks.keys()),
                 "kind_free_text": "symbolic executor for go/ssa (built from /repo's working tree on every run) -> SMT-LIB2 (bit-vectors, FP) -> z3/cvc5; path exploration by re-execution, counterexamples replayed natively with go test -overlay"}],
    "checks": [], "not_applicable": [],
    "notes": "exit 0 = every obligation discharged within the stated bounds; exit 1 + VIOLATION line = replay-confirmed counterexample not listed in known_findings.json; exit 2 = INCONCLUSIVE (never success). See DESIGN.md.",
}
for p in props:
    pid = p["id"]
    if pid in checks:
        c = checks[pid]
        m["checks"].append({
            "property_id": pid,
            "quick_cmd": f"./check {pid} quick",
            "thorough_cmd": f"./check {pid} thorough",
            "evidence_file": f"/verif/evidence/{pid}.json",
            "replay_cmd_template": "./check --replay {path}",
            "engine": "gosym",
            "level_claimed": {"category": "model_checking", "text": c.get("level_text", "bounded symbolic model checking of the implementation's SSA; holds for every value inside the stated bounds"),
                              "design_ref": c.get("design_ref", "DESIGN.md section 4 " + pid)},
            "level_note": c.get("level_note", "trusted: go/ssa construction, the gosym translator (validated on every run by native replay of sampled path witnesses), z3; stubs/models listed in the evidence file"),
            "technique": c.get("technique", "solver-based bounded symbolic execution of the real Go SSA (gosym + z3), counterexamples replayed natively"),
        })
    else:
        m["not_applicable"].append({"property_id": pid, "reason": na_reasons.get(pid, "check not built yet (build in progress); see DESIGN.md section 4")})
json.dump(m, open(os.path.join(V, "MANIFEST.json"), "w"), indent=1)
print("claimed:", sorted(checks.keys()))
