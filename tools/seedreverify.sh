#!/bin/bash
# usage: seedreverify.sh <seed-name>  - re-runs the independent confirmation of a stored seed in a fresh scratch worktree
V=$(cd "$(dirname "$0")/.." && pwd)
NAME=$1; D=$V/seeded/$NAME; WT=/tmp/seedrv_$NAME
DEMO=$(grep -o 'demo [^ ]*zz_seed_demo_test.go' $D/verify.log | head -1 | cut -d' ' -f2)
git -C /repo worktree remove --force $WT >/dev/null 2>&1; rm -rf $WT
git -C /repo worktree add --detach $WT HEAD >/dev/null 2>&1 || exit 9
git -C $WT apply $D/patch.diff || { echo "patch does not apply"; git -C /repo worktree remove --force $WT; exit 9; }
cp $D/zz_seed_demo_test.go $WT/$DEMO
cp $D/notes_from_seeder.md $WT/SEED_NOTES.md 2>/dev/null
echo "$NAME verify: $($V/tools/seedverify.sh $WT $NAME | grep -o 'suite_exit.*' | sed 's/ok  *[^ ]* *[0-9.]*s//g' | tr -s ' ')"
git -C /repo worktree remove --force $WT
