#!/bin/bash
# runs every registered check once (tier $1, default quick) and prints one line per property
cd "$(dirname "$0")/.."
mkdir -p out
TIER=${1:-quick}
for p in $(python3 -c "import json;print(' '.join(sorted(json.load(open('checks.json')).keys())))"); do
  s=$(date +%s)
  ./check $p $TIER > out/runall_$p.log 2>&1; rc=$?
  e=$(date +%s)
  echo "$p exit=$rc $((e-s))s $(grep -E '^OK|^VIOLATION|^INCONCLUSIVE' out/runall_$p.log | head -1 | cut -c1-160)"
done
