#!/bin/bash
# usage: seedverify.sh <worktree> <seed-name>
# Confirms a seeded change independently: suite passes with it, demo fails with it, demo passes without it.
# Stores patch.diff + demo + verify.log under /verif/seeded/<seed-name>/.
set -u
WT=$1; NAME=$2
export GOFLAGS=-mod=mod GOPROXY=off
D=/verif/seeded/$NAME; mkdir -p $D
cd $WT || exit 9
git diff -- . ':(exclude)*_test.go' > $D/patch.diff
DEMO=$(git status --short | grep 'zz_seed_demo_test.go' | awk '{print $2}')
cp $WT/$DEMO $D/ 2>/dev/null
cp $WT/SEED_NOTES.md $D/notes_from_seeder.md 2>/dev/null
PKG=./$(dirname $DEMO)/
{
echo "== worktree $WT demo $DEMO"
echo "== (a) build + existing suite with the change (demo skipped)"
go build ./... && go test -vet=off -count=1 -timeout 25m -skip '^TestSeedDemo$' ./... 2>&1 | grep -v "no test files"
echo "suite_exit=${PIPESTATUS[0]}"
echo "== (b) demo with the change"
go test -vet=off -count=1 -run '^TestSeedDemo$' $PKG 2>&1 | tail -15
echo "demo_with_exit=${PIPESTATUS[0]}"
echo "== (c) demo without the change"
git apply -R $D/patch.diff && go test -vet=off -count=1 -run '^TestSeedDemo$' $PKG 2>&1 | tail -5
echo "demo_without_exit=${PIPESTATUS[0]}"
git apply $D/patch.diff
} > $D/verify.log 2>&1
grep -E "suite_exit|demo_with_exit|demo_without_exit|^FAIL|^ok " $D/verify.log | tr '\n' ' '; echo
