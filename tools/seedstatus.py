#!/usr/bin/env python3
"""Runs every stored seed against its property's check(s) and writes seeded/<id>/meta.json and seeded/STATUS.md."""
import json, os, re, subprocess, sys, glob
V = os.path.dirname(os.path.dirname(os.path.abspath(__file__)))
# which checks are expected to see each seed (first = the seeded property)
extra = {"C03-1": ["C03", "C09"], "C14-1": ["C14", "C19"], "C09-1": ["C09", "C03"], "C02-3": ["C02", "C19"], "C03-3": ["C03", "C14"],
         "C15-2": ["C15", "C18"], "C03-5": ["C03", "C08"], "C07-5": ["C07", "C14"], "C03-6": ["C03", "C01"], "C15-5": ["C15", "C18"], "C08-5": ["C08", "C03"]}
# seeds that exposed a genuine defect of the pinned tree which has since been repaired in /repo: with the repair in
# place the seeded change no longer breaks the property (its demonstration passes), so no check is expected to fire
superseded = {"C18-2": "the seed stopped clearing the EVAL_CMD/DEADLINE globals of a finished call; a nested WHEREEVAL script on a pooled interpreter then "
                       "inherited the read-write kind. Since fix 0509b0a the kind of a call is kept in the Lua registry and a stale EVAL_CMD global has no "
                       "effect: the seed's demonstration passes on the repaired tree (patch.diff is the change re-based onto it, patch.orig.diff the original). "
                       "The property speaks of KEYS/ARGV only, so the check no longer demands that EVAL_CMD is cleared.",
              "C15-2": "the seed removed the follower/read-only checks of the read-write script handler, reachable from EVALRO/EVALNA only "
                       "because a script could assign EVAL_CMD; that was a genuine defect (fix 0509b0a: the call kind is kept in the Lua registry). "
                       "On the repaired tree the handler is reachable from EVAL/EVALSHA only, which are gated before the script runs, and the seed's demonstration passes."}
needs = {}
rows = []
nocheck = '--nocheck' in sys.argv  # rebuild metas from the stored verify/check logs without running anything
only = [a for a in sys.argv[1:] if a != '--nocheck']
for d in sorted(glob.glob(V + '/seeded/C*')):
    name = os.path.basename(d)
    if only and name not in only:
        m = json.load(open(d + '/meta.json')) if os.path.exists(d + '/meta.json') else None
        if m:
            rows.append(m)
        continue
    prop = name.split('-')[0]
    props = extra.get(name, [prop])
    vlog = open(d + '/verify.log').read() if os.path.exists(d + '/verify.log') else ''
    def ex(k):
        m = re.search(k + r'=(\d+)', vlog)
        return int(m.group(1)) if m else None
    notes = open(d + '/notes_from_seeder.md').read() if os.path.exists(d + '/notes_from_seeder.md') else ''
    results = {}
    for p in props:
        if nocheck:
            if not os.path.exists(f'{d}/check_{p}.quick.log'):
                continue
            log = open(f'{d}/check_{p}.quick.log').read()
            rc = 1 if re.search(r'^VIOLATION', log, re.M) else (2 if re.search(r'^INCONCLUSIVE', log, re.M) else 0)
        else:
            r = subprocess.run([V + '/tools/seedcheck.sh', name, p], capture_output=True, text=True)
            log = open(f'{d}/check_{p}.quick.log').read() if os.path.exists(f'{d}/check_{p}.quick.log') else ''
            m = re.search(r'check_exit=(\d+)', r.stdout)
            rc = int(m.group(1)) if m else None
        am = re.search(r'^  assert=(\S+) harness=(\S+)', log, re.M)
        results[p] = dict(check_exit=rc, caught=(rc == 1), assert_=am.group(1) if am else None, harness=am.group(2) if am else None)
    files = [l[6:].split(' ')[0].strip() for l in open(d + '/patch.diff') if l.startswith('+++ b/')]
    meta = dict(seed=name, property=prop, files_changed=files,
                needs_to_manifest=(re.search(r'(?is)(what (it )?(needs|takes)[^\n]*\n)(.{0,900})', notes).group(4).strip() if re.search(r'(?is)what (it )?(needs|takes)', notes) else 'see notes_from_seeder.md'),
                verified=dict(suite_passes_with_change=(ex('suite_exit') == 0), demo_fails_with_change=(ex('demo_with_exit') == 1), demo_passes_without_change=(ex('demo_without_exit') == 0),
                              how="tools/seedverify.sh in a scratch worktree: go build ./... && go test -vet=off -count=1 ./... (demo skipped); go test -run TestSeedDemo with the change; git apply -R; same test without the change; (a failing run of the known-flaky fence/roaming live or follower/follow test was re-run once)"),
                checks=results, caught_by=[p for p, r in results.items() if r['caught']])
    if name in superseded:
        meta['superseded_by_fix'] = superseded[name]
    json.dump(meta, open(d + '/meta.json', 'w'), indent=1)
    rows.append(meta)
    print(name, meta['caught_by'], flush=True)
with open(V + '/seeded/STATUS.md', 'w') as f:
    f.write("# Seeded changes and the checks that catch them\n\n| seed | property | files | caught by (assertion) |\n|---|---|---|---|\n")
    for m in rows:
        c = "; ".join(f"{p}: {r['assert_']} ({r['harness']})" if r['caught'] else f"{p}: not fired (exit {r['check_exit']})" for p, r in m['checks'].items())
        if m.get('superseded_by_fix'):
            c = "superseded by a fix (see meta.json) - " + c
        f.write(f"| {m['seed']} | {m['property']} | {', '.join(x.strip() for x in m['files_changed'])} | {c} |\n")
