package PKG

//verif:for internal/collection internal/server

// Engine-only model of the shared field-name table (internal/sstring keeps it in a hash map
// built on an unsafe string hash): a list with linear search, same Store/Load contract.

//verif:replace github.com/tidwall/tile38/internal/sstring.Store => vmSStore
//verif:replace github.com/tidwall/tile38/internal/sstring.Load => vmSLoad

var vmStrs []string

func vmSStore(str string) int {
	for i, s := range vmStrs {
		if s == str {
			return i
		}
	}
	vmStrs = append(vmStrs, str)
	return len(vmStrs) - 1
}

func vmSLoad(num int) string {
	if num >= 0 && num < len(vmStrs) {
		return vmStrs[num]
	}
	panic("string not found")
}
