package glob

// C12-K1 (pure form): every name matched by a pattern lies inside the scan range
// that Parse derives from it, for the strictest consumer of each direction
// (Collection.ScanRange: start inclusive, end exclusive).

func vhInRange(g *Glob, s string, desc bool) bool {
	lo, hi := g.Limits[0], g.Limits[1]
	if lo == "" && hi == "" {
		return true // consumers fall back to a full scan
	}
	if !desc {
		return s >= lo && s < hi
	}
	return s <= lo && s > hi
}

// VH_C12_glob_range
//verif:cfg quick.b_pattern_bytes=3 quick.b_name_bytes=3 thorough.b_pattern_bytes=4 thorough.b_name_bytes=4
func VH_C12_glob_range() {
	pmax, smax := 3, 3
	if vthorough() {
		pmax, smax = 4, 4
	}
	p := vnondetString(pmax)
	s := vnondetString(smax)
	desc := vnondetBool()
	g := Parse(p, desc)
	m, err := Match(p, s)
	vobs("parse", g.Limits[0], g.Limits[1], g.IsGlob)
	vobs("match", m, err != nil)
	if m {
		vreach("matched")
		// known finding (pinned by TestGlob, so not repairable without editing the suite): a literal
		// prefix ending in 0xFF gets the successor prefix+"\x00", which excludes prefix+"\x01"...
		n := 0
		for n < len(p) && p[n] != '*' && p[n] != '?' && p[n] != '[' && p[n] != '\\' {
			n++
		}
		kf := vknown("C12-glob-prefix-ff") && n > 0 && p[n-1] == 0xFF
		vassertK("C12.K1.match_in_range", vhInRange(g, s, desc), kf, "C12-glob-prefix-ff")
	}
}

// C12-K1 (the matcher itself): Match agrees with the documented pattern language, written out as a plain
// backtracking reference: '*' any sequence, '?' any one character, '[..]' / '[^..]' classes with ranges,
// '\c' the character c, anything else itself; the whole name must be consumed. Patterns are sequences of
// well-formed tokens (stars next to escapes, classes and literals in every order), names are symbolic.

var vhGlobTokens = []string{"a", "b", "*", "?", "\\*", "\\?", "\\a", "[ab]", "[^a]", "[a-b]", "\\["}

func vhRefClass(p string, c byte) (in bool, rest string) {
	// p starts behind '['; well-formed by construction
	neg := false
	if p[0] == '^' {
		neg = true
		p = p[1:]
	}
	for n := 0; ; n++ {
		if p[0] == ']' && n > 0 {
			p = p[1:]
			break
		}
		lo := p[0]
		p = p[1:]
		hi := lo
		if p[0] == '-' {
			hi = p[1]
			p = p[2:]
		}
		if lo <= c && c <= hi {
			in = true
		}
	}
	return in != neg, p
}

func vhRefMatch(p, s string) bool {
	if p == "" {
		return s == ""
	}
	switch p[0] {
	case '*':
		for k := 0; k <= len(s); k++ {
			if vhRefMatch(p[1:], s[k:]) {
				return true
			}
		}
		return false
	case '?':
		return len(s) > 0 && vhRefMatch(p[1:], s[1:])
	case '[':
		if len(s) == 0 {
			return false
		}
		in, rest := vhRefClass(p[1:], s[0])
		return in && vhRefMatch(rest, s[1:])
	case '\\':
		return len(s) > 0 && s[0] == p[1] && vhRefMatch(p[2:], s[1:])
	}
	return len(s) > 0 && s[0] == p[0] && vhRefMatch(p[1:], s[1:])
}

//verif:cfg quick.b_pattern=3_tokens_of_11_(literals,*,?,escaped_*_?_a_[,classes_[ab]_[^a]_[a-b]) thorough.b_pattern=4_tokens quick.b_name_bytes=0..3_symbolic_ASCII thorough.b_name_bytes=0..4 maxpaths=3000000
func VH_C12_glob_match_spec() {
	nt, smax := 3, 3
	if vthorough() {
		nt, smax = 4, 4
	}
	p := ""
	for i := 0; i < nt; i++ {
		p += vhGlobTokens[vchoose(len(vhGlobTokens))]
	}
	s := vnondetString(smax)
	for i := 0; i < len(s); i++ {
		vassume(s[i] < 0x80)
	}
	m, err := Match(p, s)
	vobs("spec", p, m, err != nil)
	vassert("C12.K1.well_formed_pattern_is_accepted", err == nil)
	vassert("C12.K1.match_follows_the_documented_pattern_language", m == vhRefMatch(p, s))
}
