package glob

// C12-K1 (pure form): every name matched by a pattern lies inside the scan range
// that Parse derives from it, for the strictest consumer of each direction
// (Collection.ScanRange: start inclusive, end exclusive).

func vhInRange(g *Glob, s string, desc bool) bool {
	lo, hi := g.Limits[0], g.Limits[1]
	if lo == "" && hi == "" {
		return true // consumers fall back to a full scan
	}
	if !desc {
		return s >= lo && s < hi
	}
	return s <= lo && s > hi
}

// VH_C12_glob_range
//verif:cfg quick.b_pattern_bytes=3 quick.b_name_bytes=3 thorough.b_pattern_bytes=5 thorough.b_name_bytes=4
func VH_C12_glob_range() {
	pmax, smax := 3, 3
	if vthorough() {
		pmax, smax = 5, 4
	}
	p := vnondetString(pmax)
	s := vnondetString(smax)
	desc := vnondetBool()
	g := Parse(p, desc)
	m, err := Match(p, s)
	vobs("parse", g.Limits[0], g.Limits[1], g.IsGlob)
	vobs("match", m, err != nil)
	if m {
		vreach("matched")
		// known finding (pinned by TestGlob, so not repairable without editing the suite): a literal
		// prefix ending in 0xFF gets the successor prefix+"\x00", which excludes prefix+"\x01"...
		n := 0
		for n < len(p) && p[n] != '*' && p[n] != '?' && p[n] != '[' && p[n] != '\\' {
			n++
		}
		kf := vknown("C12-glob-prefix-ff") && n > 0 && p[n-1] == 0xFF
		vassertK("C12.K1.match_in_range", vhInRange(g, s, desc), kf, "C12-glob-prefix-ff")
	}
}
