package field

// C01-K1: the binary field list behaves as a map name -> last non-zero value, kept in name order.

//verif:replace github.com/tidwall/tile38/internal/sstring.Store => vmSStore
//verif:replace github.com/tidwall/tile38/internal/sstring.Load => vmSLoad

var vmStrs []string

func vmSStore(str string) int {
	for i, s := range vmStrs {
		if s == str {
			return i
		}
	}
	vmStrs = append(vmStrs, str)
	return len(vmStrs) - 1
}

func vmSLoad(num int) string {
	if num >= 0 && num < len(vmStrs) {
		return vmStrs[num]
	}
	panic("string not found")
}

var vhNames = [3]string{"a", "b", "c"}
var vhNumbers = [4]string{"0", "1", "-1.5", "10"}
var vhNumVals = [4]float64{0, 1, -1.5, 10}
var vhJSONs = [2]string{`{"a":1}`, `[1]`}

// vhValue draws a value of any kind the server can construct (ValueOf's invariants: num = ParseFloat(data)
// for numbers, fixed data for null/true/false).
func vhValue() Value {
	switch vchoose(6) {
	case 0:
		return Value{kind: Null, data: "null"}
	case 1:
		return Value{kind: False, data: "false"}
	case 2:
		i := vchoose(4)
		return Value{kind: Number, data: vhNumbers[i], num: vhNumVals[i]}
	case 3:
		return Value{kind: String, data: vnondetString(2)}
	case 4:
		return Value{kind: True, data: "true"}
	}
	return Value{kind: JSON, data: vhJSONs[vchoose(2)]}
}

func vhUvarintLen(x int) int {
	n := 1
	for x >= 0x80 {
		x >>= 7
		n++
	}
	return n
}

func vhSame(a, b Value) bool {
	return a.kind == b.kind && a.data == b.data && (a.num == b.num)
}

//verif:cfg quick.b_sets=2 thorough.b_sets=3 b_names=3 b_string_bytes=0..2 b_kinds=6
func VH_C01_fieldlist() {
	sets := 2
	if vthorough() {
		sets = 3
	}
	var list List
	var model [3]Value
	var present [3]bool
	for k := 0; k < sets; k++ {
		ni := vchoose(3)
		v := vhValue()
		before := list
		list = list.Set(Field{name: vhNames[ni], value: v})
		switch {
		case v.IsZero():
			present[ni] = false
		case present[ni] && model[ni].Equals(v):
			// documented "no change" (value equality: numbers by value, strings case-insensitively)
			vassert("C01.K1.equal_set_returns_same_list", list == before)
		default:
			model[ni], present[ni] = v, true
		}
	}
	// reads
	count, weight := 0, 0
	for i := 0; i < 3; i++ {
		got := list.Get(vhNames[i])
		if present[i] {
			count++
			weight += vhUvarintLen(vmSStore(vhNames[i])) + 1
			if datakind(model[i].kind) {
				weight += vhUvarintLen(len(model[i].data)) + len(model[i].data)
			}
			vassert("C01.K1.get_returns_last_set", got.name == vhNames[i] && vhSame(got.value, model[i]))
		} else {
			vassert("C01.K1.absent_reads_zero", got == ZeroField)
		}
	}
	if weight > 0 {
		weight += vhUvarintLen(weight)
	}
	vassert("C01.K1.len", list.Len() == count)
	vassert("C01.K1.weight", list.Weight() == weight)
	// scan: name order, exactly the present entries
	prev := ""
	n := 0
	ok := true
	list.Scan(func(f Field) bool {
		if n > 0 && !(prev < f.name) {
			ok = false
		}
		prev = f.name
		found := false
		for i := 0; i < 3; i++ {
			if vhNames[i] == f.name && present[i] && vhSame(f.value, model[i]) {
				found = true
			}
		}
		if !found {
			ok = false
		}
		n++
		return true
	})
	vassert("C01.K1.scan_sorted_and_exact", ok && n == count)
	vobs("list", count, weight)
}
