package field

// C12-K2: the value order that WHERE / WHEREIN rely on.
//   kinds:   Null < False < Number < String < True < JSON
//   numbers: numerically; strings: by ASCII-lower-cased bytes; other kinds by data

func vhLowerByte(c byte) byte {
	if c >= 'A' && c <= 'Z' {
		return c + 32
	}
	return c
}

// vhLowerLess is the specification of case-insensitive string order.
func vhLowerLess(a, b string) bool {
	n := len(a)
	if len(b) < n {
		n = len(b)
	}
	// decided by the first differing lower-cased byte, else by length
	res := len(a) < len(b)
	for i := n - 1; i >= 0; i-- {
		x, y := vhLowerByte(a[i]), vhLowerByte(b[i])
		if x != y {
			res = x < y
		}
	}
	return res
}

//verif:cfg quick.b_bytes=0..3 thorough.b_bytes=0..4
func VH_C12_string_order() {
	n := 3
	if vthorough() {
		n = 4
	}
	a, b := vnondetString(n), vnondetString(n)
	got := stringLessInsensitive(a, b)
	vobs("less", got)
	vassert("C12.K2.string_less_is_lowercase_order", got == vhLowerLess(a, b))
}

func vhOrderValue() Value {
	switch vchoose(6) {
	case 0:
		return Value{kind: Null, data: "null"}
	case 1:
		return Value{kind: False, data: "false"}
	case 2:
		f := vnondetFloat64()
		vassume(f == f) // NaN excluded
		return Value{kind: Number, data: "n", num: f}
	case 3:
		return Value{kind: String, data: vnondetString(2)}
	case 4:
		return Value{kind: True, data: "true"}
	}
	return Value{kind: JSON, data: vnondetString(1)}
}

// vhSpecLess is the documented order written out.
func vhSpecLess(a, b Value) bool {
	if a.kind != b.kind {
		return a.kind < b.kind
	}
	switch a.kind {
	case Number:
		return a.num < b.num
	case String:
		return vhLowerLess(a.data, b.data)
	}
	return a.data < b.data
}

//verif:cfg b_values=any_kind b_string_bytes=0..2 b_numbers=any_non-NaN_float64
func VH_C12_value_order() {
	a, b := vhOrderValue(), vhOrderValue()
	vassert("C12.K2.less_matches_documented_order", a.Less(b) == vhSpecLess(a, b))
	vassert("C12.K2.irreflexive_and_asymmetric", !(a.Less(b) && b.Less(a)))
	vassert("C12.K2.equals_iff_neither_less", a.Equals(b) == (!vhSpecLess(a, b) && !vhSpecLess(b, a)))
	vassert("C12.K2.case_sensitive_variant", a.LessCase(b, true) == (a.kind < b.kind || (a.kind == b.kind && ((a.kind == Number && a.num < b.num) || (a.kind != Number && a.data < b.data)))))
}
