package object

import (
	"github.com/tidwall/geojson"
	"github.com/tidwall/geojson/geometry"
	"github.com/tidwall/tile38/internal/field"
)

// C01-K2 / C14: the object head (kind, varint deadline, id) reads back exactly what was written,
// for every id (including 0x00 / >=0x80 first bytes) and every int64 deadline.
//verif:cfg quick.b_id_bytes=3 thorough.b_id_bytes=5 b_deadline=any_int64 b_unwind=10(varint_of_64_bits)
func VH_C01_object_head() {
	n := 3
	if vthorough() {
		n = 5
	}
	id := vnondetString(n)
	ex := vnondetInt64()
	var g geojson.Object
	if vnondetBool() {
		g = geojson.NewSimplePoint(geometry.Point{X: 1, Y: 2})
	} else {
		g = geojson.NewPointZ(geometry.Point{X: 1, Y: 2}, 3)
	}
	o := New(id, g, ex, field.List{})
	vobs("head", o.ID(), o.Expires())
	vassert("C01.K2.id_roundtrip", o.ID() == id)
	vassert("C01.K2.expires_roundtrip", o.Expires() == ex)
	vassert("C01.K2.has_deadline_iff_nonzero", (o.Expires() != 0) == (ex != 0))
	vassert("C01.K2.geo_kept", o.Geo() == g || o.Geo().Center() == g.Center())
}
