package server

import (
	"errors"
	"strings"
	"sync"

	"github.com/tidwall/buntdb"
	"github.com/tidwall/gjson"
	"github.com/tidwall/tile38/internal/endpoint"
)

// C10-K1: the webhook sender (Hook.proc) delivers the queued notifications of a hook in queue order,
// each at most once per success, and puts exactly the unsent tail back when an endpoint fails - for every
// failure pattern of the endpoints. Real Hook.proc over the real (in-memory) buntdb queue; the endpoint is a
// model in the engine and a local HTTP server in the native replay.

//verif:replace[epmodel] (*github.com/tidwall/tile38/internal/endpoint.Manager).Send => vmEpSend

var vhEpFails [12]bool // failure pattern: the k-th send attempt fails iff vhEpFails[k]
var vhEpCalls int
var vhEpGot []string // messages accepted by the endpoint, in arrival order
var vhEpMu sync.Mutex
var vhEpCloseAt = -1 // the hook is closed (deleted / replaced by SETHOOK) while this send attempt is in flight
var vhEpHook *Hook

// vhEpHandle is what the endpoint does with the k-th request (shared by the model and the HTTP server).
func vhEpHandle(msg string) bool {
	vhEpMu.Lock()
	defer vhEpMu.Unlock()
	k := vhEpCalls
	vhEpCalls++
	if k == vhEpCloseAt && vhEpHook != nil {
		vhEpHook.Close()
	}
	if k < len(vhEpFails) && vhEpFails[k] {
		return false
	}
	vhEpGot = append(vhEpGot, gjson.Get(msg, "n").String())
	return true
}

func vmEpSend(epc *endpoint.Manager, ep, msg string) error {
	if !vhEpHandle(msg) {
		return errors.New("endpoint down")
	}
	return nil
}

func vhQueueMsg(s *Server, hook string, n string) {
	s.qdb.Update(func(tx *buntdb.Tx) error {
		s.qidx++
		key := hookLogPrefix + uint64ToString(s.qidx)
		tx.Set(key, `{"hook":"`+hook+`","n":"`+n+`"}`, hookLogSetDefaults)
		return nil
	})
}

func vhQueued(s *Server, hook string) []string {
	var out []string
	s.qdb.View(func(tx *buntdb.Tx) error {
		tx.Ascend("", func(key, val string) bool {
			if strings.HasPrefix(key, hookLogPrefix) && gjson.Get(val, "hook").String() == hook {
				out = append(out, gjson.Get(val, "n").String())
			}
			return true
		})
		return nil
	})
	return out
}

//verif:cfg use=epmodel b_messages=3(+1_queued_between_calls) b_endpoints=1..2 b_proc_calls=3 b_failure_pattern=any_over_the_first_12_send_attempts b_hook_closed=never|during_one_of_the_first_4_send_attempts b_other_hook_messages=1 ignorego=1
func VH_C10_webhook_retry() {
	s := vhServer()
	for i := range vhEpFails {
		vhEpFails[i] = vnondetBool()
	}
	vhEpCalls, vhEpGot = 0, nil
	eps := vhEndpoints(1 + vchoose(2))
	h := &Hook{Name: "h", Endpoints: eps, db: s.qdb, epm: vhEpManager(s), counter: &s.statsTotalMsgsSent,
		cond: sync.NewCond(&sync.Mutex{}), query: `{"hook":"h"}`}
	// the hook may be closed (DELHOOK, or SETHOOK replacing it) while one of the first sends is in flight: what it
	// already took from the queue is still delivered or put back
	vhEpCloseAt, vhEpHook = vchoose(5)-1, h
	vhQueueMsg(s, "h", "1")
	vhQueueMsg(s, "other", "x") // another hook's message must be left alone
	vhQueueMsg(s, "h", "2")
	vhQueueMsg(s, "h", "3")
	all := []string{"1", "2", "3"}
	late := vchoose(3) // after which proc call a 4th message is queued (2 = never)
	for call := 0; call < 3; call++ {
		before := len(vhEpGot)
		ok := h.proc()
		rest := vhQueued(s, "h")
		// delivered so far followed by what is still queued is exactly everything, in order
		seq := append(append([]string(nil), vhEpGot...), rest...)
		vassert("C10.K1.nothing_lost_nothing_duplicated_in_order", vhSameStrings(seq, all))
		if ok {
			vassert("C10.K1.success_empties_the_queue", len(rest) == 0)
		} else {
			vassert("C10.K1.failure_keeps_the_unsent_tail", len(rest) > 0)
		}
		vassert("C10.K1.delivery_only_grows", len(vhEpGot) >= before)
		if call == late {
			vhQueueMsg(s, "h", "4")
			all = append(all, "4")
		}
	}
	vassert("C10.K1.other_hooks_queue_untouched", vhSameStrings(vhQueued(s, "other"), []string{"x"}))
	vobs("delivered", len(vhEpGot), vhEpCalls)
	vhEpShutdown()
}

// VH_C10_pubsub: after any short history of SUBSCRIBE / PSUBSCRIBE / UNSUBSCRIBE / PUNSUBSCRIBE by two
// connections (including unsubscribing from something never subscribed to), a PUBLISH reaches exactly the
// connections whose subscription is in force, once per matching subscription, and in publish order.
// Real pubsub.register / unregister / Server.Publish.
//verif:cfg b_history=3_operations_over_2_connections_x_(channel,pattern)_x_(subscribe,unsubscribe) b_publishes=2 ignorego=1
func VH_C10_pubsub() {
	s := vhServer()
	targets := [2]*subtarget{newSubtarget(), newSubtarget()}
	names := [2]string{"ch", "c*"} // exact channel, pattern
	var model [2][2]bool         // [target][kind]
	for i := 0; i < 3; i++ {
		t, k, sub := vchoose(2), vchoose(2), vnondetBool()
		if sub {
			s.pubsub.register(k, names[k], targets[t])
			model[t][k] = true
		} else {
			s.pubsub.unregister(k, names[k], targets[t])
			model[t][k] = false
		}
	}
	n1 := s.Publish("ch", "m1")
	n2 := s.Publish("ch", "m2")
	want := 0
	for t := 0; t < 2; t++ {
		subs := 0
		for k := 0; k < 2; k++ {
			if model[t][k] {
				subs++
			}
		}
		want += subs
		got := targets[t].msgs
		ok := len(got) == 2*subs
		for i, m := range got {
			// all m1 deliveries precede all m2 deliveries
			if i < subs && m.message != "m1" || i >= subs && m.message != "m2" {
				ok = false
			}
			if m.channel != "ch" || !model[t][m.kind] {
				ok = false
			}
		}
		vassert("C10.K3.subscriber_gets_each_publish_once_per_subscription_in_order", ok)
	}
	vassert("C10.K3.publish_count", n1 == want && n2 == want)
	vobs("pubsub", want)
}

// VH_C10_pubsub_interleaved: publishes interleaved with (un)subscribes while the receivers' queues are not drained
// (slow readers). A message published while a subscription was in force stays queued for it - in particular
// cancelling the exact subscription does not take away what the pattern subscription of the same connection
// is owed, and the other way round - exactly once per subscription, in publish order.
//verif:cfg b_history=4_operations(subscribe|unsubscribe_x_2_connections_x_channel|pattern,_or_publish) b_queues=never_drained ignorego=1
func VH_C10_pubsub_interleaved() {
	s := vhServer()
	targets := [2]*subtarget{newSubtarget(), newSubtarget()}
	names := [2]string{"ch", "c*"}
	var inForce [2][2]bool
	var must [2][2][]string   // owed to subscription (t,k) and still in force since
	var may [2][2][]string    // published while in force, subscription cancelled later (either outcome is acceptable)
	msgs := [4]string{"m1", "m2", "m3", "m4"}
	np := 0
	for i := 0; i < 4; i++ {
		if vchoose(3) == 0 {
			m := msgs[np]
			np++
			n := s.Publish("ch", m)
			want := 0
			for t := 0; t < 2; t++ {
				for k := 0; k < 2; k++ {
					if inForce[t][k] {
						must[t][k] = append(must[t][k], m)
						want++
					}
				}
			}
			vassert("C10.K3.publish_count", n == want)
			continue
		}
		t, k, sub := vchoose(2), vchoose(2), vnondetBool()
		if sub {
			s.pubsub.register(k, names[k], targets[t])
			inForce[t][k] = true
		} else {
			s.pubsub.unregister(k, names[k], targets[t])
			inForce[t][k] = false
			may[t][k] = append(may[t][k], must[t][k]...)
			must[t][k] = nil
		}
	}
	for t := 0; t < 2; t++ {
		for k := 0; k < 2; k++ {
			// the queued messages of kind k: every owed message exactly once and in order; anything else only if it
			// was published while the (later cancelled) subscription was in force
			j, ok := 0, true
			for _, m := range targets[t].msgs {
				if int(m.kind) != k {
					continue
				}
				if j < len(must[t][k]) && m.message == must[t][k][j] {
					j++
					continue
				}
				allowed := false
				for _, x := range may[t][k] {
					if x == m.message {
						allowed = true
					}
				}
				if !allowed {
					ok = false
				}
			}
			vassert("C10.K3.queued_messages_of_a_subscription_in_force_are_kept", ok && j == len(must[t][k]))
		}
	}
	vobs("interleaved", np)
}
