package server

import (
	"io"
	"net"
	"strings"
	"sync"
	"time"

	"github.com/tidwall/gjson"
)

// C10 (socket level): a (P)SUBSCRIBE connection served by the REAL liveSubscription - its command loop, its
// writer goroutine (an interpreted thread of its own, scheduled at every socket write and condition wait) and
// the real register / unregister / Publish / cmdPublish. Another client's PUBLISH commands take effect at
// chosen moments between the subscriber's socket events (before or after each acknowledgement is written,
// before each further command is read).
//
// A subscription whose acknowledgement was written before a PUBLISH (and that has not been cancelled since)
// is owed the message: exactly once, in publish order, in the documented wire form; a subscription that was
// requested but not yet acknowledged, or is being cancelled, may or may not get it; nobody else does. PUBLISH
// answers the number of receivers. When the connection ends, everything owed has been written.

//verif:replace[c10l] (*sync.Cond).Wait => vmSubCondWait
//verif:replace[c10l] (*sync.Cond).Broadcast => vmSubCondBroadcast

type vhCondRec struct {
	c   *sync.Cond
	gen int
}

var vhSubConds []*vhCondRec

func vhCondRecOf(c *sync.Cond) *vhCondRec {
	for _, r := range vhSubConds {
		if r.c == c {
			return r
		}
	}
	r := &vhCondRec{c: c}
	vhSubConds = append(vhSubConds, r)
	return r
}

// Wait returns when a broadcast arrives after it was entered (the mutex of the condition variable is a no-op
// in the engine: threads switch only at socket operations and here, never inside a critical section).
func vmSubCondWait(c *sync.Cond) {
	r := vhCondRecOf(c)
	g := r.gen
	vblockUntil(func() bool { return r.gen != g })
}
func vmSubCondBroadcast(c *sync.Cond) { vhCondRecOf(c).gen++ }

const (
	vhSubNone = iota
	vhSubPending
	vhSubAcked
	vhSubLeaving
)

type vhSubState struct {
	kind  int
	name  string
	state int
	must  []string // owed: published while acknowledged and in force
	may   []string // published while pending or being cancelled
}

type vhSubConn struct {
	s       *Server
	json    bool
	mu      sync.Mutex
	packets [][]string // further commands of the subscriber, one per read
	next    int
	subs    []*vhSubState
	acks    []string // "<command> <channel> <num>" per acknowledgement, in order
	msgs    []string // "<kind> <pattern> <channel> <payload>" per delivered message (kind/pattern only in RESP)
	others  []string // any other reply (pong, errors, +OK)
	np      int      // publishes so far
	pubN    []int    // PUBLISH replies
	pubMin  []int
	pubMax  []int
	closed  bool
	closedCh chan struct{}
	once    sync.Once
}

func (c *vhSubConn) sub(kind int, name string) *vhSubState {
	for _, x := range c.subs {
		if x.kind == kind && x.name == name {
			return x
		}
	}
	x := &vhSubState{kind: kind, name: name}
	c.subs = append(c.subs, x)
	return x
}

func vhSubMatches(kind int, name, channel string) bool {
	if kind == pubsubChannel {
		return name == channel
	}
	// the patterns used here: "c*" and "x*"
	return len(name) == 2 && name[1] == '*' && len(channel) > 0 && channel[0] == name[0]
}

var vhPubMsgs = [3]string{"m1", "m2", "m3"}

// maybePublish: another client's PUBLISH takes effect now (a decision of the exploration)
func (c *vhSubConn) maybePublish() {
	for c.np < vhMaxPublishes() && vnondetBool() {
		m := vhPubMsgs[c.np]
		c.np++
		min, max := 0, 0
		for _, x := range c.subs {
			if !vhSubMatches(x.kind, x.name, "ch") {
				continue
			}
			switch x.state {
			case vhSubAcked:
				x.must = append(x.must, m)
				min++
				max++
			case vhSubPending, vhSubLeaving:
				x.may = append(x.may, m)
				max++
			}
		}
		c.mu.Unlock()
		v, _, err := vhDo(c.s, "PUBLISH", "ch", m)
		c.mu.Lock()
		n := -1
		if err == nil {
			n = v.Integer()
		}
		c.pubN = append(c.pubN, n)
		c.pubMin = append(c.pubMin, min)
		c.pubMax = append(c.pubMax, max)
	}
}

func vhMaxPublishes() int {
	if vthorough() {
		return 3
	}
	return 2
}

func (c *vhSubConn) Read(p []byte) (int, error) {
	vgate("Read")
	c.mu.Lock()
	defer c.mu.Unlock()
	c.maybePublish()
	if c.next >= len(c.packets) {
		// a healthy receiver: it stays connected until it has been sent what it is owed, then it leaves
		c.mu.Unlock()
		vblockUntil(func() bool {
			c.mu.Lock()
			defer c.mu.Unlock()
			return c.owedDelivered()
		})
		c.mu.Lock()
		return 0, io.EOF
	}
	args := c.packets[c.next]
	c.next++
	c.requested(args)
	return copy(p, vhEncode(args...)), nil
}

// requested: the server has been handed the command
func (c *vhSubConn) requested(args []string) {
	kind, un := -1, false
	switch strings.ToLower(args[0]) {
	case "subscribe":
		kind = pubsubChannel
	case "psubscribe":
		kind = pubsubPattern
	case "unsubscribe":
		kind, un = pubsubChannel, true
	case "punsubscribe":
		kind, un = pubsubPattern, true
	}
	if kind < 0 {
		return
	}
	for _, name := range args[1:] {
		x := c.sub(kind, name)
		if un {
			if x.state != vhSubNone {
				x.state = vhSubLeaving
				x.may = append(x.may, x.must...) // what is still queued may or may not be written
				x.must = nil
			}
		} else if x.state == vhSubNone || x.state == vhSubLeaving {
			x.state = vhSubPending
		}
	}
}

func vhStripBulk(p string) string {
	// "$<len>\r\n<payload>\r\n" -> payload
	if len(p) > 0 && p[0] == '$' {
		if i := strings.Index(p, "\r\n"); i > 0 && len(p) >= i+4 {
			return p[i+2 : len(p)-2]
		}
	}
	return p
}

// respBulks: the bulk strings / integers of one RESP array reply, as strings
func vhRespItems(p string) []string {
	var out []string
	i := 0
	if i < len(p) && p[i] == '*' {
		j := strings.Index(p[i:], "\r\n")
		i += j + 2
	}
	for i < len(p) {
		j := strings.Index(p[i:], "\r\n")
		if j < 0 {
			break
		}
		head := p[i : i+j]
		i += j + 2
		if head[0] == '$' {
			n := 0
			for _, d := range head[1:] {
				n = n*10 + int(d-'0')
			}
			if i+n > len(p) {
				break
			}
			out = append(out, p[i:i+n])
			i += n + 2
		} else {
			out = append(out, head[1:])
		}
	}
	return out
}

func (c *vhSubConn) Write(p []byte) (int, error) {
	vgate("Write")
	c.mu.Lock()
	defer c.mu.Unlock()
	s := string(p)
	isAck, cmd, ch, num := false, "", "", ""
	var items []string
	if c.json {
		body := vhStripBulk(s)
		if gjson.Valid(body) && gjson.Get(body, "command").Exists() {
			isAck, cmd, ch, num = true, gjson.Get(body, "command").String(), gjson.Get(body, "channel").String(), gjson.Get(body, "num").Raw
		} else if gjson.Valid(body) && gjson.Get(body, "ok").Exists() {
			c.others = append(c.others, vhDropElapsed(body))
			return len(p), nil
		} else {
			c.msgs = append(c.msgs, body)
			return len(p), nil
		}
	} else {
		items = vhRespItems(s)
		if len(s) > 0 && s[0] == '*' && len(items) == 3 && strings.HasSuffix(items[0], "subscribe") {
			isAck, cmd, ch, num = true, items[0], items[1], items[2]
		} else if len(s) > 0 && s[0] == '*' && len(items) >= 3 && (items[0] == "message" || items[0] == "pmessage") {
			c.msgs = append(c.msgs, strings.Join(items, " "))
			return len(p), nil
		} else {
			c.others = append(c.others, s)
			return len(p), nil
		}
	}
	if isAck {
		// another client's PUBLISH may take effect just before or just after this acknowledgement leaves
		c.maybePublish()
		c.acks = append(c.acks, cmd+" "+ch+" "+num)
		kind := pubsubChannel
		if cmd[0] == 'p' {
			kind = pubsubPattern
		}
		x := c.sub(kind, ch)
		if strings.HasSuffix(cmd, "unsubscribe") {
			x.state = vhSubNone
		} else if x.state == vhSubPending {
			x.state = vhSubAcked
		}
		c.maybePublish()
	}
	return len(p), nil
}

func vhDropElapsed(body string) string {
	if i := strings.Index(body, `,"elapsed":`); i >= 0 {
		return body[:i] + "}"
	}
	return body
}

func (c *vhSubConn) Close() error {
	c.closed = true
	if c.closedCh != nil {
		c.once.Do(func() { close(c.closedCh) })
	}
	return nil
}
func (c *vhSubConn) LocalAddr() net.Addr                { return vhAddr{} }
func (c *vhSubConn) RemoteAddr() net.Addr               { return vhAddr{} }
func (c *vhSubConn) SetDeadline(t time.Time) error      { return nil }
func (c *vhSubConn) SetReadDeadline(t time.Time) error  { return nil }
func (c *vhSubConn) SetWriteDeadline(t time.Time) error { return nil }

func (c *vhSubConn) nmsgs() int {
	c.mu.Lock()
	defer c.mu.Unlock()
	return len(c.msgs)
}


// owedDelivered: everything owed so far has been written to the socket
func (c *vhSubConn) owedDelivered() bool { return c.deliveriesOK(false) }

// deliveriesOK: every owed message is there (exactly once and in order); with strict also: nothing else except
// the optional ones, at most once each, and nothing out of publish order.
func (c *vhSubConn) deliveriesOK(strict bool) bool {
	if !c.json {
		for _, x := range c.subs {
			var got []string
			for _, m := range c.msgs {
				it := strings.Split(m, " ")
				if x.kind == pubsubChannel && it[0] == "message" && len(it) == 3 && it[1] == x.name {
					got = append(got, it[2])
				}
				if x.kind == pubsubPattern && it[0] == "pmessage" && len(it) == 4 && it[1] == x.name && it[2] == "ch" {
					got = append(got, it[3])
				}
			}
			if strict {
				if !vhOwedDelivered(got, x.must, x.may) {
					return false
				}
			} else {
				j := 0
				for _, m := range got {
					if j < len(x.must) && m == x.must[j] {
						j++
					}
				}
				if j < len(x.must) {
					return false
				}
			}
		}
		return true
	}
	// JSON mode: the payload only (a JSON string); counts per message and publish order
	ok := true
	last := 0
	for _, m := range c.msgs {
		idx := -1
		for k, pm := range vhPubMsgs {
			if m == `"`+pm+`"` {
				idx = k
			}
		}
		if idx < 0 || idx < last {
			ok = false
		}
		if idx > last {
			last = idx
		}
	}
	if !strict {
		ok = true
	}
	for k := 0; k < c.np; k++ {
		min, max, got := 0, 0, 0
		for _, x := range c.subs {
			for _, m := range x.must {
				if m == vhPubMsgs[k] {
					min++
					max++
				}
			}
			for _, m := range x.may {
				if m == vhPubMsgs[k] {
					max++
				}
			}
		}
		for _, m := range c.msgs {
			if m == `"`+vhPubMsgs[k]+`"` {
				got++
			}
		}
		if got < min || strict && got > max {
			ok = false
		}
	}
	return ok
}

var vhSubCommands = [][]string{
	{"SUBSCRIBE", "ch"},
	{"PSUBSCRIBE", "c*"},
	{"UNSUBSCRIBE", "ch"},
	{"PUNSUBSCRIBE", "c*"},
	{"SUBSCRIBE", "other", "ch"},
	{"PSUBSCRIBE", "x*", "c*"},
	{"PING"},
	{"GET", "k", "a"},
}

//verif:cfg use=c10l b_subscriber_commands=1_(P)SUBSCRIBE+1_further_of_8_(subscribe,psubscribe,unsubscribe,punsubscribe,two_names,ping,invalid) b_publishes=quick:0..2|thorough:0..3_at_any_moment_before/after_each_acknowledgement_or_before_each_read b_output=RESP|JSON b_threads=command_loop+writer_goroutine quick.maxswitches=6 thorough.maxswitches=8 maxpaths=1500000
func VH_C10_live_subscription() {
	s := vhServer()
	vhSubConds = nil
	conn := &vhSubConn{s: s, json: vnondetBool(), closedCh: make(chan struct{})}
	first := vhSubCommands[[2]int{0, 1}[vchoose(2)]]
	nfurther := 1
	for i := 0; i < nfurther; i++ {
		conn.packets = append(conn.packets, vhSubCommands[vchoose(len(vhSubCommands))])
	}
	msg := &Message{Args: first, ConnType: RESP, OutputType: RESP}
	if conn.json {
		msg.OutputType = JSON
	}
	conn.requested(first)
	rd := NewPipelineReader(conn)
	var serr error
	if vnative() {
		vhFreeSchedule() // the writer goroutine runs freely; everything asserted below is independent of its timing
		serr = s.liveSubscription(conn, rd, msg, false)
		owed := 0
		for _, x := range conn.subs {
			owed += len(x.must)
		}
		for i := 0; i < 1500 && conn.nmsgs() < owed; i++ {
			time.Sleep(2 * time.Millisecond)
		}
		time.Sleep(20 * time.Millisecond)
	} else {
		vspawn(func() { serr = s.liveSubscription(conn, rd, msg, false) })
		vrunThreads()
	}
	conn.mu.Lock()
	defer conn.mu.Unlock()
	vassert("C10.L.connection_ends_cleanly", serr == nil && conn.closed)
	// acknowledgements: one per requested name, in request order, with the running number of subscriptions
	var wantAcks []string
	model := map[string]bool{}
	count := func() int {
		n := 0
		for _, v := range model {
			if v {
				n++
			}
		}
		return n
	}
	for _, args := range append([][]string{first}, conn.packets...) {
		cmd := strings.ToLower(args[0])
		if !strings.HasSuffix(cmd, "subscribe") {
			continue
		}
		for _, name := range args[1:] {
			key := "c:" + name
			if cmd[0] == 'p' {
				key = "p:" + name
			}
			model[key] = !strings.HasSuffix(cmd, "unsubscribe")
			wantAcks = append(wantAcks, cmd+" "+name+" "+vhItoa(count()))
		}
	}
	vassert("C10.L.one_acknowledgement_per_name_in_order_with_the_subscription_count", strings.Join(conn.acks, "|") == strings.Join(wantAcks, "|"))
	for i := range conn.pubN {
		vassert("C10.L.publish_answers_the_number_of_receivers", conn.pubN[i] >= conn.pubMin[i] && conn.pubN[i] <= conn.pubMax[i])
	}
	// deliveries
	vassert("C10.L.acknowledged_subscription_gets_each_publish_once_in_order", conn.deliveriesOK(true))
	if !conn.json {
		total := 0
		for _, x := range conn.subs {
			total += len(x.must) + len(x.may)
		}
		wellformed := true
		for _, m := range conn.msgs {
			it := strings.Split(m, " ")
			if !(it[0] == "message" && len(it) == 3 && it[1] == "ch" || it[0] == "pmessage" && len(it) == 4 && it[2] == "ch") {
				wellformed = false
			}
		}
		vassert("C10.L.no_message_for_anyone_else", wellformed && len(conn.msgs) <= total)
	}
	// the registry is empty again
	vassert("C10.L.subscriptions_released_at_disconnect", len(s.pubsub.hubs[0]) == 0 && len(s.pubsub.hubs[1]) == 0)
	owedTotal := 0
	for _, x := range conn.subs {
		owedTotal += len(x.must)
	}
	if owedTotal > 0 {
		vreach("live-subscription-owed-a-message")
	}
	vobs("livesub", conn.json, strings.Join(conn.acks, "|"), conn.np, conn.pubN, strings.Join(conn.others, "|"), owedTotal)
}

// vhOwedDelivered: got contains every owed message exactly once and in order; anything else is one of the
// optional ones, at most once each.
func vhOwedDelivered(got, must, may []string) bool {
	j := 0
	used := make([]bool, len(may))
	for _, m := range got {
		if j < len(must) && m == must[j] {
			j++
			continue
		}
		ok := false
		for k, x := range may {
			if !used[k] && x == m {
				used[k] = true
				ok = true
				break
			}
		}
		if !ok {
			return false
		}
	}
	return j == len(must)
}

func vhItoa(n int) string {
	if n == 0 {
		return "0"
	}
	s := ""
	for n > 0 {
		s = string(rune('0'+n%10)) + s
		n /= 10
	}
	return s
}
