package server

func vhNativeServe(s *Server, conns []*vhConn) {}
