package server

import (
	"strconv"

	"github.com/mmcloughlin/geohash"
	"github.com/tidwall/geojson"
	"github.com/tidwall/geojson/geometry"
)

// C01 (sequential keyspace model): a differential harness. The real server (handleInputCommand and the real
// handlers, containers and reply writers) runs next to a plain reference model (sorted slices: collection ->
// id -> (object, fields, has-deadline)). One of a family of datasets is built through both, then one (two in
// the thorough tier) command(s) with symbolic choice of operation, collection, options and a SYMBOLIC id byte
// runs through both: the RESP reply must be exactly the model's, and afterwards every read command
// (KEYS, TYPE, SCAN IDS, GET WITHFIELDS, TTL, EXISTS, FEXISTS, FGET, JGET) must answer what the model predicts.

type vmField struct{ name, val string }

type vmObj struct {
	id     string
	str    bool   // string object (val) or geometry (geo = what GET prints)
	val    string
	fields []vmField // sorted by name, never a zero value
	ex     bool
	geo    int // index into vmPointArgs (geometries), -1 for strings
}

type vmCol struct {
	key  string
	objs []vmObj // sorted by id
}

type vmDB struct{ cols []vmCol } // sorted by key

func (m *vmDB) col(key string) int {
	for i := range m.cols {
		if m.cols[i].key == key {
			return i
		}
	}
	return -1
}

func (m *vmDB) obj(key, id string) *vmObj {
	ci := m.col(key)
	if ci < 0 {
		return nil
	}
	c := &m.cols[ci]
	for i := range c.objs {
		if c.objs[i].id == id {
			return &c.objs[i]
		}
	}
	return nil
}

func (m *vmDB) dropCol(key string) bool {
	ci := m.col(key)
	if ci < 0 {
		return false
	}
	m.cols = append(m.cols[:ci:ci], m.cols[ci+1:]...)
	return true
}

func (m *vmDB) putCol(c vmCol) {
	m.dropCol(c.key)
	i := 0
	for i < len(m.cols) && m.cols[i].key < c.key {
		i++
	}
	m.cols = append(m.cols[:i:i], append([]vmCol{c}, m.cols[i:]...)...)
}

func (m *vmDB) put(key string, o vmObj) {
	ci := m.col(key)
	if ci < 0 {
		m.putCol(vmCol{key: key})
		ci = m.col(key)
	}
	c := &m.cols[ci]
	for i := range c.objs {
		if c.objs[i].id == o.id {
			c.objs[i] = o
			return
		}
	}
	i := 0
	for i < len(c.objs) && c.objs[i].id < o.id {
		i++
	}
	c.objs = append(c.objs[:i:i], append([]vmObj{o}, c.objs[i:]...)...)
}

func (m *vmDB) del(key, id string) bool {
	ci := m.col(key)
	if ci < 0 {
		return false
	}
	c := &m.cols[ci]
	for i := range c.objs {
		if c.objs[i].id == id {
			c.objs = append(c.objs[:i:i], c.objs[i+1:]...)
			if len(c.objs) == 0 {
				m.dropCol(key)
			}
			return true
		}
	}
	return false
}

func vmSetField(fs []vmField, name, val string) []vmField {
	out := make([]vmField, 0, len(fs)+1)
	done := false
	for _, f := range fs {
		if f.name == name {
			if val != "0" {
				out = append(out, vmField{name, val})
			}
			done = true
			continue
		}
		if !done && f.name > name {
			if val != "0" {
				out = append(out, vmField{name, val})
			}
			done = true
		}
		out = append(out, f)
	}
	if !done && val != "0" {
		out = append(out, vmField{name, val})
	}
	return out
}

func vmGetField(fs []vmField, name string) string {
	for _, f := range fs {
		if f.name == name {
			return f.val
		}
	}
	return "0"
}

func vmBulk(s string) string { return "$" + strconv.Itoa(len(s)) + "\r\n" + s + "\r\n" }
func vmInt(n int) string     { return ":" + strconv.Itoa(n) + "\r\n" }

// geometries a SET may carry, and what GET prints for them (the documented reading of each form)
var vmPointArgs = [][]string{
	{"POINT", "33", "-115"}, {"POINT", "1", "2"}, {"POINT", "33", "-115", "5"}, {"BOUNDS", "1", "2", "3", "4"},
	{"OBJECT", `{"type":"LineString","coordinates":[[1,1],[2,2]]}`}, {"HASH", "9my5xp7"},
}
var vmPointJSON = []string{`{"type":"Point","coordinates":[-115,33]}`, `{"type":"Point","coordinates":[2,1]}`,
	`{"type":"Point","coordinates":[-115,33,5]}`, `{"type":"Polygon","coordinates":[[[2,1],[4,1],[4,3],[2,3],[2,1]]]}`,
	`{"type":"LineString","coordinates":[[1,1],[2,2]]}`, vmHashJSON("9my5xp7")}

// GET key id POINT for the first three geometries: [lat, lon] or [lat, lon, z]
var vmPointGET = []string{"*2\r\n$2\r\n33\r\n$4\r\n-115\r\n", "*2\r\n$1\r\n1\r\n$1\r\n2\r\n", "*3\r\n$2\r\n33\r\n$4\r\n-115\r\n$1\r\n5\r\n"}

// HASH is the point the geohash decodes to
func vmHashJSON(h string) string {
	lat, lon := geohash.Decode(h)
	return geojson.NewPoint(geometry.Point{X: lon, Y: lat}).String()
}
var vmKeys = []string{"a", "b", "c"}
var vmFieldNames = []string{"f", "g"}
var vmFieldVals = []string{"0", "1", "x"}

const (
	vmSetPoint = iota
	vmSetString
	vmSetFieldPoint
	vmSetNX
	vmSetXX
	vmSetEX
	vmFset
	vmFsetXX
	vmDel
	vmPdel
	vmDrop
	vmRename
	vmRenameNX
	vmFlushdb
	vmExpire
	vmPersist
	vmJset
	vmJdel
	vmFset2
	vmNumOps
)

type vmCmd struct {
	op         int
	key, key2  string
	id         string
	fname, val string
	val2       string
	p          int
	pattern    string
}

func (c vmCmd) args() []string {
	pt := vmPointArgs[c.p]
	switch c.op {
	case vmSetPoint:
		return append([]string{"SET", c.key, c.id}, pt...)
	case vmSetString:
		return []string{"SET", c.key, c.id, "STRING", c.val}
	case vmSetFieldPoint:
		return append([]string{"SET", c.key, c.id, "FIELD", c.fname, c.val}, pt...)
	case vmSetNX:
		return append([]string{"SET", c.key, c.id, "NX"}, pt...)
	case vmSetXX:
		return []string{"SET", c.key, c.id, "XX", "STRING", c.val}
	case vmSetEX:
		return append([]string{"SET", c.key, c.id, "EX", "100"}, pt...)
	case vmFset:
		return []string{"FSET", c.key, c.id, c.fname, c.val}
	case vmFsetXX:
		return []string{"FSET", c.key, c.id, "XX", c.fname, c.val}
	case vmFset2:
		return []string{"FSET", c.key, c.id, "f", c.val, c.fname, c.val2}
	case vmDel:
		return []string{"DEL", c.key, c.id}
	case vmPdel:
		return []string{"PDEL", c.key, c.pattern}
	case vmDrop:
		return []string{"DROP", c.key}
	case vmRename:
		return []string{"RENAME", c.key, c.key2}
	case vmRenameNX:
		return []string{"RENAMENX", c.key, c.key2}
	case vmFlushdb:
		return []string{"FLUSHDB"}
	case vmExpire:
		return []string{"EXPIRE", c.key, c.id, "100"}
	case vmPersist:
		return []string{"PERSIST", c.key, c.id}
	case vmJset:
		return []string{"JSET", c.key, c.id, "n", "5"}
	default:
		return []string{"JDEL", c.key, c.id, "n"}
	}
}

const vmErrKey = "-ERR key not found\r\n"
const vmErrID = "-ERR id not found\r\n"

// apply runs the command on the model and returns the RESP reply the documentation promises;
// ok=false: the combination is outside what the model describes (JSET/JDEL on documents it has no
// reading of) - the path is dropped by the caller.
func (m *vmDB) apply(c vmCmd) (reply string, ok bool) {
	old := m.obj(c.key, c.id)
	switch c.op {
	case vmSetPoint, vmSetFieldPoint, vmSetNX, vmSetEX, vmSetString, vmSetXX:
		if c.op == vmSetNX && old != nil {
			return "$-1\r\n", true
		}
		if c.op == vmSetXX && old == nil {
			return "$-1\r\n", true
		}
		o := vmObj{id: c.id, geo: -1}
		if old != nil {
			o.fields = old.fields
		}
		if c.op == vmSetString || c.op == vmSetXX {
			o.str, o.val = true, c.val
		} else {
			o.val, o.geo = vmPointJSON[c.p], c.p
		}
		if c.op == vmSetFieldPoint {
			o.fields = vmSetField(o.fields, c.fname, c.val)
		}
		o.ex = c.op == vmSetEX
		m.put(c.key, o)
		return "+OK\r\n", true
	case vmFset, vmFsetXX:
		if m.col(c.key) < 0 {
			return vmErrKey, true
		}
		if old == nil {
			if c.op == vmFsetXX {
				return vmInt(0), true
			}
			return vmErrID, true
		}
		if vmGetField(old.fields, c.fname) == c.val {
			return vmInt(0), true
		}
		old.fields = vmSetField(old.fields, c.fname, c.val)
		return vmInt(1), true
	case vmFset2:
		if m.col(c.key) < 0 {
			return vmErrKey, true
		}
		if old == nil {
			return vmErrID, true
		}
		n := 0
		if vmGetField(old.fields, "f") != c.val {
			old.fields = vmSetField(old.fields, "f", c.val)
			n++
		}
		// the pairs apply one after the other (the second name may repeat the first)
		if vmGetField(old.fields, c.fname) != c.val2 {
			old.fields = vmSetField(old.fields, c.fname, c.val2)
			n++
		}
		return vmInt(n), true
	case vmDel:
		if m.del(c.key, c.id) {
			return vmInt(1), true
		}
		return vmInt(0), true
	case vmPdel:
		ci := m.col(c.key)
		if ci < 0 {
			return vmInt(0), true
		}
		var ids []string
		for _, o := range m.cols[ci].objs {
			if c.pattern == "*" || c.pattern == o.id || (len(c.pattern) == 2 && c.pattern[1] == '*' && len(o.id) >= 1 && o.id[0] == c.pattern[0]) {
				ids = append(ids, o.id)
			}
		}
		for _, id := range ids {
			m.del(c.key, id)
		}
		return vmInt(len(ids)), true
	case vmDrop:
		if m.dropCol(c.key) {
			return vmInt(1), true
		}
		return vmInt(0), true
	case vmRename, vmRenameNX:
		ci := m.col(c.key)
		if ci < 0 {
			return vmErrKey, true
		}
		if c.op == vmRenameNX && m.col(c.key2) >= 0 {
			return vmInt(0), true
		}
		col := m.cols[ci]
		m.dropCol(c.key)
		col.key = c.key2
		m.putCol(col)
		if c.op == vmRenameNX {
			return vmInt(1), true
		}
		return "+OK\r\n", true
	case vmFlushdb:
		m.cols = nil
		return "+OK\r\n", true
	case vmExpire:
		if old == nil {
			return vmInt(0), true
		}
		old.ex = true
		return vmInt(1), true
	case vmPersist:
		if old == nil || !old.ex {
			return vmInt(0), true
		}
		old.ex = false
		return vmInt(1), true
	case vmJset:
		if old == nil {
			m.put(c.key, vmObj{id: c.id, str: true, val: `{"n":5}`, geo: -1})
			return "+OK\r\n", true
		}
		if !old.str {
			return "", false
		}
		switch old.val {
		case `{"n":1}`, `{"n":5}`, `{}`:
			old.val = `{"n":5}`
			old.ex = false // JSET stores a new object without a deadline (like SET without EX)
			return "+OK\r\n", true
		}
		return "", false
	default: // vmJdel
		if m.col(c.key) < 0 || old == nil {
			return vmInt(0), true
		}
		if !old.str {
			return "", false
		}
		switch old.val {
		case `{"n":1}`, `{"n":5}`:
			old.val = `{}`
			old.ex = false
			return vmInt(1), true
		case `{}`:
			return vmInt(0), true
		}
		return "", false
	}
}

// vhReply runs one command through the real dispatcher and returns the bytes written to the client.
func vhReply(s *Server, args ...string) string {
	client := &Client{}
	msg := &Message{Args: append([]string(nil), args...), ConnType: RESP, OutputType: RESP}
	if err := s.handleInputCommand(client, msg); err != nil {
		return "transport error: " + err.Error()
	}
	return string(client.out)
}

func vmTTLok(o *vmObj, reply string) bool {
	if o == nil {
		return reply == ":-2\r\n"
	}
	if !o.ex {
		return reply == ":-1\r\n"
	}
	return reply == ":100\r\n" || reply == ":99\r\n" || reply == ":98\r\n"
}

// vhCompareReads: every read command answers what the model predicts.
func vhCompareReads(s *Server, m *vmDB, probeIDs []string) {
	// KEYS *
	exp := "*" + strconv.Itoa(len(m.cols)) + "\r\n"
	for _, c := range m.cols {
		exp += vmBulk(c.key)
	}
	vassert("C01.M.keys", vhReply(s, "KEYS", "*") == exp)
	for _, key := range vmKeys {
		ci := m.col(key)
		if ci < 0 {
			vassert("C01.M.type_none_iff_no_object", vhReply(s, "TYPE", key) == "+none\r\n")
			vassert("C01.M.scan_missing_collection", vhReply(s, "SCAN", key, "IDS") == "*2\r\n:0\r\n*0\r\n")
		} else {
			vassert("C01.M.type_hash_iff_objects", vhReply(s, "TYPE", key) == "+hash\r\n")
			e := "*2\r\n:0\r\n*" + strconv.Itoa(len(m.cols[ci].objs)) + "\r\n"
			for _, o := range m.cols[ci].objs {
				e += vmBulk(o.id)
			}
			vassert("C01.M.scan_ids", vhReply(s, "SCAN", key, "IDS") == e)
		}
		ids := append([]string(nil), probeIDs...)
		if ci >= 0 {
			for _, o := range m.cols[ci].objs {
				ids = append(ids, o.id)
			}
		}
		for i, id := range ids {
			dup := false
			for _, p := range ids[:i] {
				if p == id {
					dup = true
				}
			}
			if dup {
				continue
			}
			o := m.obj(key, id)
			get := vhReply(s, "GET", key, id, "WITHFIELDS")
			ttl := vhReply(s, "TTL", key, id)
			vassert("C01.M.ttl", vmTTLok(o, ttl))
			if o == nil {
				vassert("C01.M.get_missing", get == "$-1\r\n")
				ex := vhReply(s, "EXISTS", key, id)
				if ci < 0 {
					vassert("C01.M.exists_missing_key", ex == vmErrKey)
				} else {
					vassert("C01.M.exists_missing_id", ex == ":0\r\n")
				}
				continue
			}
			e := vmBulk(o.val)
			if len(o.fields) == 0 {
				e = "*1\r\n" + e
			} else {
				e = "*2\r\n" + e + "*" + strconv.Itoa(2*len(o.fields)) + "\r\n"
				for _, f := range o.fields {
					e += vmBulk(f.name) + vmBulk(f.val)
				}
			}
			vassert("C01.M.get_reads_object_and_fields", get == e)
			vassert("C01.M.exists", vhReply(s, "EXISTS", key, id) == ":1\r\n")
			for _, fn := range vmFieldNames {
				fv := vmGetField(o.fields, fn)
				vassert("C01.M.fget", vhReply(s, "FGET", key, id, fn) == vmBulk(fv))
				want := ":1\r\n"
				if fv == "0" {
					want = ":0\r\n"
				}
				vassert("C01.M.fexists", vhReply(s, "FEXISTS", key, id, fn) == want)
			}
			if !o.str && o.geo >= 0 && o.geo < len(vmPointGET) {
				vassert("C01.M.get_point_form", vhReply(s, "GET", key, id, "POINT") == vmPointGET[o.geo])
			}
			if o.str && (o.val == `{"n":1}` || o.val == `{"n":5}`) {
				vassert("C01.M.jget", vhReply(s, "JGET", key, id, "n") == vmBulk(o.val[5:6]))
			}
		}
	}
}

func vhModelServer() *Server {
	s, _ := vhModelServerLock()
	return s
}

func vhModelServerLock() (*Server, *vhLock) {
	s := vhServer()
	lk := &vhLock{s: s, noSnap: true}
	s.mu = lk
	s.aof = nil
	s.loadedAndReady.Store(true)
	return s, lk
}

// vhModelDataset builds dataset number d through the real commands and through the model alike.
func vhModelDataset(s *Server, m *vmDB, d int) {
	var prog []vmCmd
	switch d {
	case 0:
	case 1:
		prog = []vmCmd{{op: vmSetFieldPoint, key: "a", id: "1", fname: "f", val: "1", p: 0}}
	case 2:
		prog = []vmCmd{
			{op: vmSetEX, key: "a", id: "1", p: 0},
			{op: vmSetString, key: "a", id: "2", val: "v"},
			{op: vmFset, key: "a", id: "2", fname: "g", val: "x"},
		}
	case 3:
		prog = []vmCmd{
			{op: vmSetString, key: "a", id: "1", val: `{"n":1}`},
			{op: vmFset, key: "a", id: "1", fname: "f", val: "1"},
			{op: vmExpire, key: "a", id: "1"},
			{op: vmSetPoint, key: "b", id: "1", p: 1},
		}
	default:
		prog = []vmCmd{
			{op: vmSetPoint, key: "a", id: "1", p: 0},
			{op: vmSetFieldPoint, key: "a", id: "2", fname: "g", val: "1", p: 1},
			{op: vmFset, key: "a", id: "2", fname: "f", val: "x"},
			{op: vmSetString, key: "b", id: "2", val: "w"},
		}
	}
	for _, c := range prog {
		exp, _ := m.apply(c)
		got := vhReply(s, c.args()...)
		vassert("C01.M.dataset_reply", got == exp)
	}
}

// vhModelCommand draws one command: operation, collection and options by choice, the id as a symbolic byte.
func vhModelCommand(symbolicID bool) vmCmd {
	c := vmCmd{op: vchoose(vmNumOps)}
	if c.op == vmFlushdb {
		return c
	}
	c.key = vmKeys[vchoose(2)]
	switch c.op {
	case vmDrop:
		return c
	case vmRename, vmRenameNX:
		c.key2 = vmKeys[vchoose(3)]
		return c
	case vmPdel:
		b := byte('1')
		if symbolicID {
			b = vnondetByte()
		} else if vnondetBool() {
			b = '2'
		}
		vassume(b != '*' && b != '?' && b != '[' && b != '\\')
		switch vchoose(3) {
		case 0:
			c.pattern = "*"
		case 1:
			c.pattern = string([]byte{b})
		default:
			c.pattern = string([]byte{b, '*'})
		}
		return c
	}
	if symbolicID {
		c.id = vnondetStringN(1)
	} else {
		c.id = [2]string{"1", "2"}[vchoose(2)]
	}
	switch c.op {
	case vmSetPoint, vmSetNX, vmSetEX:
		c.p = vchoose(len(vmPointArgs))
	case vmFset2:
		c.val = vmFieldVals[vchoose(3)]
		c.fname = vmFieldNames[vchoose(2)] // "f" again, or "g"
		c.val2 = vmFieldVals[vchoose(3)]
	case vmSetString, vmSetXX:
		c.val = []string{"w", `{"n":1}`}[vchoose(2)]
	case vmSetFieldPoint, vmFset, vmFsetXX:
		c.fname = vmFieldNames[vchoose(2)]
		c.val = vmFieldVals[vchoose(3)]
		if c.op == vmSetFieldPoint {
			c.p = vchoose(len(vmPointArgs))
		}
	}
	return c
}

//verif:cfg b_datasets=5(empty|point+field|deadline+string+field|JSON_string+field+deadline,2_collections|3_objects_2_collections) quick.b_commands=1 thorough.b_commands=2 b_operations=19(SET_point/point+z/BOUNDS/HASH/GeoJSON/string/FIELD/NX/XX/EX,FSET,FSET_XX,FSET_two_pairs(same_or_different_names),DEL,PDEL,DROP,RENAME,RENAMENX,FLUSHDB,EXPIRE,PERSIST,JSET,JDEL) b_ids=one_symbolic_byte(first_command),_1|2(second_command) thorough.maxwall=7000 b_collections=a|b(|c_as_RENAME_target) b_reads_after=KEYS,TYPE,SCAN_IDS,GET_WITHFIELDS,TTL,EXISTS,FEXISTS,FGET,JGET ignorego=1 maxpaths=2000000
func VH_C01_model() {
	s := vhModelServer()
	m := &vmDB{}
	vhModelDataset(s, m, vchoose(5))
	n := 1
	if vthorough() {
		n = 2
	}
	var probes []string
	for i := 0; i < n; i++ {
		c := vhModelCommand(i == 0)
		exp, ok := m.apply(c)
		if !ok {
			return // outside the model's reading (JSET/JDEL on geometries or non-JSON strings)
		}
		got := vhReply(s, c.args()...)
		vobs("cmd", c.op, got)
		vassert("C01.M.reply_is_the_models", got == exp)
		if c.id != "" {
			probes = append(probes, c.id)
		}
	}
	vhCompareReads(s, m, probes)
	vreach("model-compared")
}
