package server

import (
	"io"
	"io/fs"
	"os"
	"sync"
	"time"

	"github.com/tidwall/resp"
)

// ---------------------------------------------------------------------------
// os.File model (engine only): one file, a byte vector with position, truncate/seek log.
// Natively the harness uses a real temporary file and the real server commands.

//verif:replace[filemodel] (*os.File).Stat => vmFileStat
//verif:replace[filemodel] (*os.File).Read => vmFileRead
//verif:replace[filemodel] (*os.File).Write => vmFileWrite
//verif:replace[filemodel] (*os.File).Truncate => vmFileTruncate
//verif:replace[filemodel] (*os.File).Seek => vmFileSeek
//verif:replace[filemodel] (*os.File).Sync => vmFileSync
//verif:replace[recorder] (*github.com/tidwall/tile38/internal/server.Server).command => vmCommandRecorder

type vmFileT struct {
	data      []byte
	pos       int
	truncates int
	seeks     int
	chunk     int // max bytes handed out per Read (0 = as many as fit)
}

var vmFile vmFileT

type vmFileInfo struct{ size int64 }

func (fi vmFileInfo) Name() string       { return "appendonly.aof" }
func (fi vmFileInfo) Size() int64        { return fi.size }
func (fi vmFileInfo) Mode() fs.FileMode  { return 0600 }
func (fi vmFileInfo) ModTime() time.Time { return time.Time{} }
func (fi vmFileInfo) IsDir() bool        { return false }
func (fi vmFileInfo) Sys() interface{}   { return nil }

func vmFileStat(f *os.File) (os.FileInfo, error) {
	return vmFileInfo{int64(len(vmFile.data))}, nil
}

func vmFileRead(f *os.File, p []byte) (int, error) {
	if vmFile.pos >= len(vmFile.data) {
		return 0, io.EOF
	}
	src := vmFile.data[vmFile.pos:]
	if vmFile.chunk > 0 && len(src) > vmFile.chunk {
		src = src[:vmFile.chunk]
	}
	n := copy(p, src)
	vmFile.pos += n
	return n, nil
}

func vmFileWrite(f *os.File, p []byte) (int, error) {
	// write at the current position (the file is not opened with O_APPEND)
	for len(vmFile.data) < vmFile.pos {
		vmFile.data = append(vmFile.data, 0)
	}
	vmFile.data = append(vmFile.data[:vmFile.pos], p...)
	vmFile.pos += len(p)
	return len(p), nil
}

func vmFileTruncate(f *os.File, size int64) error {
	vmFile.truncates++
	if int(size) <= len(vmFile.data) {
		vmFile.data = vmFile.data[:size]
	} else {
		for len(vmFile.data) < int(size) {
			vmFile.data = append(vmFile.data, 0)
		}
	}
	return nil
}

func vmFileSeek(f *os.File, off int64, whence int) (int64, error) {
	vmFile.seeks++
	np := vmFile.pos
	switch whence {
	case 0:
		np = int(off)
	case 1:
		np += int(off)
	case 2:
		np = len(vmFile.data) + int(off)
	}
	if np < 0 {
		return 0, os.ErrInvalid // lseek: EINVAL for a negative resulting offset
	}
	vmFile.pos = np
	return int64(vmFile.pos), nil
}

func vmFileSync(f *os.File) error { return nil }

// recorder for Server.command (engine only)
var vmCommands [][]string

func vmCommandRecorder(s *Server, msg *Message, client *Client) (resp.Value, commandDetails, error) {
	vmCommands = append(vmCommands, append([]string(nil), msg.Args...))
	return resp.Value{}, commandDetails{}, nil
}

// ---------------------------------------------------------------------------

func vhEncode(args ...string) []byte {
	var b []byte
	b = append(b, '*')
	b = vhAppendInt(b, len(args))
	b = append(b, '\r', '\n')
	for _, a := range args {
		b = append(b, '$')
		b = vhAppendInt(b, len(a))
		b = append(b, '\r', '\n')
		b = append(b, a...)
		b = append(b, '\r', '\n')
	}
	return b
}

func vhAppendInt(b []byte, n int) []byte {
	if n >= 10 {
		b = vhAppendInt(b, n/10)
	}
	return append(b, byte('0'+n%10))
}

// vhOpenAOF gives the server a log file with the given content, positioned at 0.
func vhOpenAOF(s *Server, content []byte) {
	if vnative() {
		f, err := os.CreateTemp("", "verif-aof-*")
		if err != nil {
			panic(err)
		}
		f.Write(content)
		f.Seek(0, 0)
		s.aof = f
		return
	}
	vmFile = vmFileT{data: append([]byte(nil), content...)}
	vmCommands = nil
	s.aof = new(os.File)
}

func vhCloseAOF(s *Server) {
	if vnative() {
		name := s.aof.Name()
		s.aof.Close()
		os.Remove(name)
	}
}

func vhFileSize(s *Server) int {
	if vnative() {
		fi, _ := s.aof.Stat()
		return int(fi.Size())
	}
	return len(vmFile.data)
}

func vhFilePos(s *Server) int {
	if vnative() {
		n, _ := s.aof.Seek(0, 1)
		return int(n)
	}
	return vmFile.pos
}

func vhFileBytes(s *Server) []byte {
	if vnative() {
		b, _ := os.ReadFile(s.aof.Name())
		return b
	}
	return append([]byte(nil), vmFile.data...)
}

// vhStringValue reads back the string object key/id ("" , false when absent).
func vhStringValue(s *Server, key, id string) (string, bool) {
	if vnative() {
		col, _ := s.cols.Get(key)
		if col == nil {
			return "", false
		}
		o := col.Get(id)
		if o == nil {
			return "", false
		}
		return o.String(), true
	}
	val, ok := "", false
	for _, c := range vmCommands {
		if len(c) == 5 && c[0] == "SET" && c[1] == key && c[2] == id && c[3] == "STRING" {
			val, ok = c[4], true
		}
	}
	return val, ok
}

func vhNewServer() *Server {
	if vnative() {
		return vhServer()
	}
	return &Server{fcond: sync.NewCond(&sync.Mutex{})}
}

// VH_C04_torn_tail: log = enc(c1) z1 enc(c2) z2 cut at every offset t; ids/values symbolic, padding 0..2 NULs.
//verif:cfg use=recorder,filemodel b_commands=2 b_arg_bytes=1..2 b_padding=0..2_NUL b_tear=every_offset b_chunking=whole_file ignorego=1
func VH_C04_torn_tail() {
	id1, v1 := vnondetStringN(1), vnondetString(2)
	id2, v2 := vnondetStringN(1), vnondetString(1)
	vassume(id1 != id2 && id1 != "z" && id2 != "z")
	z1, z2 := vchoose(3), vchoose(3)
	enc1 := vhEncode("SET", "k", id1, "STRING", v1)
	enc2 := vhEncode("SET", "k", id2, "STRING", v2)
	var log []byte
	log = append(log, enc1...)
	e1 := len(log)
	for i := 0; i < z1; i++ {
		log = append(log, 0)
	}
	p1 := len(log)
	log = append(log, enc2...)
	e2 := len(log)
	for i := 0; i < z2; i++ {
		log = append(log, 0)
	}
	p2 := len(log)
	t := vchoose(p2 + 1)
	vobs("log", string(log), t)

	// expected repaired length
	want := t
	switch {
	case t < e1:
		want = 0
	case t > p1 && t < e2:
		want = p1
	}

	s := vhNewServer()
	vhOpenAOF(s, log[:t])
	err := s.loadAOF()
	vassert("C04.no_error", err == nil)
	g1, ok1 := vhStringValue(s, "k", id1)
	g2, ok2 := vhStringValue(s, "k", id2)
	vassert("C04.recovers_complete_commands", ok1 == (t >= e1) && ok2 == (t >= e2))
	vassert("C04.values_intact", vimplies(ok1, g1 == v1) && vimplies(ok2, g2 == v2))
	vassert("C04.aofsz", s.aofsz == want)
	vassert("C04.file_cut_to_boundary", vhFileSize(s) == want)
	vassert("C04.position_at_end", vhFilePos(s) == want)

	// the server keeps appending: one more acknowledged write, then a restart
	id3, v3 := "z", vnondetStringN(1)
	s.writeAOF([]string{"SET", "k", id3, "STRING", v3}, nil)
	s.flushAOF(false)
	vassert("C04.aofsz_after_append", s.aofsz == vhFileSize(s))
	after := vhFileBytes(s)
	vhCloseAOF(s)

	s2 := vhNewServer()
	vhOpenAOF(s2, after)
	err = s2.loadAOF()
	vassert("C04.restart_no_error", err == nil)
	r1, rok1 := vhStringValue(s2, "k", id1)
	r2, rok2 := vhStringValue(s2, "k", id2)
	r3, rok3 := vhStringValue(s2, "k", id3)
	vassert("C04.restart_recovers_all", rok1 == ok1 && rok2 == ok2 && rok3 && r3 == v3 && vimplies(rok1, r1 == v1) && vimplies(rok2, r2 == v2))
	vassert("C04.restart_no_truncation", vhFileSize(s2) == len(after))
	vhCloseAOF(s2)
}

// VH_C04_chunk_boundary: a log larger than one 64 KiB read. A large first command places the read boundary
// (offset 65535) at every position inside a second command whose id and value bytes are symbolic (binary
// safe, NUL included); a torn third command follows. The carry-over between reads must neither lose nor
// invent a byte.
//verif:cfg use=recorder,filemodel b_log_size=one_read_boundary_(65535) b_boundary=every_offset_inside_the_second_command b_arg_bytes=1+3_symbolic b_tail=0..3_NUL_then_optionally_a_torn_command b_then=one_more_write_and_a_second_restart ignorego=1 maxsteps=60000000
func VH_C04_chunk_boundary() {
	id, v := vnondetStringN(1), vnondetStringN(3)
	vassume(id != "z" && id != "y")
	enc2 := vhEncode("SET", "k", id, "STRING", v)
	j := vchoose(len(enc2) + 1) // how many bytes of the second command lie before the boundary
	// first command: SET k z STRING <filler>, sized so that it ends at 65535-j
	head := len(vhEncode("SET", "k", "z", "STRING", "")) - len("$0\r\n\r\n")
	fill := 65535 - j - head - len("$65400\r\n") - 2
	filler := make([]byte, fill)
	for i := range filler {
		filler[i] = 'f'
	}
	enc1 := vhEncode("SET", "k", "z", "STRING", string(filler))
	vassume(len(enc1) == 65535-j)
	var log []byte
	log = append(log, enc1...)
	log = append(log, enc2...)
	// the tail: 0..3 NULs of padding, then (optionally) a torn third command
	z := vchoose(4)
	for i := 0; i < z; i++ {
		log = append(log, 0)
	}
	e2 := len(log)
	torn := vnondetBool()
	if torn {
		log = append(log, "*3\r\n$3\r\nDEL\r\n$1\r\nk"...)
	}
	s := vhNewServer()
	vhOpenAOF(s, log)
	err := s.loadAOF()
	vobs("boundary", j, id, v, z, torn)
	vassert("C04.no_error", err == nil)
	got, ok := vhStringValue(s, "k", id)
	vassert("C04.straddling_command_recovered_exactly", ok && got == v)
	big, okb := vhStringValue(s, "k", "z")
	vassert("C04.large_value_recovered", okb && len(big) == fill)
	vassert("C04.aofsz", s.aofsz == e2)
	vassert("C04.file_cut_to_boundary", vhFileSize(s) == e2)
	vassert("C04.position_at_end", vhFilePos(s) == e2)
	// the server keeps appending; the later write survives the next restart together with everything before it
	s.writeAOF([]string{"SET", "k", "y", "STRING", "later"}, nil)
	s.flushAOF(false)
	after := vhFileBytes(s)
	vhCloseAOF(s)
	keep := true
	for i := 0; i < e2-z; i++ {
		if after[i] != log[i] {
			keep = false
		}
	}
	vassert("C04.complete_commands_stay_in_the_file", len(after) >= e2 && keep)
	s2 := vhNewServer()
	vhOpenAOF(s2, after)
	err = s2.loadAOF()
	vassert("C04.restart_no_error", err == nil)
	r, rok := vhStringValue(s2, "k", id)
	ry, roky := vhStringValue(s2, "k", "y")
	vassert("C04.restart_recovers_all", rok && r == v && roky && ry == "later")
	vhCloseAOF(s2)
}
