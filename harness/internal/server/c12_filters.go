package server

import (
	"github.com/tidwall/tile38/internal/field"
	"github.com/tidwall/tile38/internal/glob"
)

// C12-K3: COUNT equals the number of items the same query returns as IDS, for every query kind and filter
// combination; ASC/DESC only reverse. C12-K1 (consumers): MATCH / KEYS / PDEL / CHANS / PDELCHAN select exactly
// the names that glob.Match accepts, for symbolic names and patterns (the range shortcut never changes results).

func vhCountOf(s *Server, args ...string) int {
	r, _, err := vhDo(s, args...)
	if err != nil {
		return -1
	}
	return r.Integer()
}

//verif:cfg b_queries=SCAN,SEARCH,WITHIN,INTERSECTS,NEARBY b_filters=none|WHERE|WHEREIN|MATCH|WHERE+MATCH b_dataset=2_points+2_strings_with_fields ignorego=1
func VH_C12_count_equals_ids() {
	s := vhServer()
	vhDo(s, "SET", "k", "a1", "FIELD", "f", "1", "POINT", "1", "1")
	vhDo(s, "SET", "k", "a2", "FIELD", "f", "5", "POINT", "2", "2")
	vhDo(s, "SET", "k", "b1", "FIELD", "f", "3", "STRING", "apple")
	vhDo(s, "SET", "k", "b2", "STRING", "banana")
	var head, area []string
	switch vchoose(5) {
	case 0:
		head = []string{"SCAN", "k"}
	case 1:
		head = []string{"SEARCH", "k"}
	case 2:
		head, area = []string{"WITHIN", "k"}, []string{"BOUNDS", "0", "0", "10", "10"}
	case 3:
		head, area = []string{"INTERSECTS", "k"}, []string{"BOUNDS", "0", "0", "10", "10"}
	default:
		head, area = []string{"NEARBY", "k"}, []string{"POINT", "1", "1"}
	}
	var filter []string
	switch vchoose(6) {
	case 1:
		filter = []string{"WHERE", "f", "2", "9"}
	case 2:
		filter = []string{"WHEREIN", "f", "2", "1", "3"}
	case 3:
		filter = []string{"MATCH", "a*"}
	case 4:
		filter = []string{"WHERE", "f", "0", "4", "MATCH", "*1"}
	case 5:
		filter = []string{"WHERE", "f", "0", "0"} // missing fields read as 0
	}
	desc := vnondetBool()
	q := append([]string(nil), head...)
	if desc && (head[0] == "SCAN" || head[0] == "SEARCH") {
		q = append(q, "DESC")
	}
	q = append(q, filter...)
	ids, _, err := vhDo(s, append(append(append([]string(nil), q...), "IDS"), area...)...)
	vassert("C12.K3.ids_query_ok", err == nil)
	_, list := vhIDsOf(ids)
	cnt := vhCountOf(s, append(append(append([]string(nil), q...), "COUNT"), area...)...)
	vobs("count", head[0], len(filter), desc, len(list), cnt)
	vassert("C12.K3.count_equals_number_of_ids", cnt == len(list))
	if head[0] == "SCAN" || head[0] == "SEARCH" {
		// the other direction returns the same items reversed
		q2 := append([]string(nil), head...)
		if !desc {
			q2 = append(q2, "DESC")
		}
		q2 = append(q2, filter...)
		ids2, _, _ := vhDo(s, append(q2, "IDS")...)
		_, list2 := vhIDsOf(ids2)
		rev := len(list) == len(list2)
		for i := range list2 {
			if rev && list2[i] != list[len(list)-1-i] {
				rev = false
			}
		}
		vassert("C12.K3.desc_only_reverses", rev)
	}
}

// VH_C12_match_consumers: names and pattern symbolic; every consumer of the range shortcut against a plain
// filter by glob.Match.
//verif:cfg quick.b_pattern_bytes=0..2 thorough.b_pattern_bytes=0..3 quick.b_names=2_x_1_symbolic_byte+1_fixed thorough.b_names=3_x_1..2_symbolic_bytes maxwall=3000 b_consumers=SCAN_MATCH,SCAN_DESC_MATCH,KEYS,PDEL,CHANS,PDELCHAN,HOOKS,PDELHOOK ignorego=1
func VH_C12_match_consumers() {
	s := vhServer()
	np := 2
	if vthorough() {
		np = 3
	}
	pat := vnondetString(np)
	var names [3]string
	if vthorough() {
		names = [3]string{vnondetString(2), vnondetString(2), vnondetString(2)}
	} else {
		names = [3]string{vnondetStringN(1), vnondetStringN(1), "m"}
	}
	vassume(names[0] != "" && names[1] != "" && names[2] != "")
	vassume(names[0] != names[1] && names[0] != names[2] && names[1] != names[2])
	consumer := vchoose(8)
	want := 0
	var wantm [3]bool
	for i, n := range names {
		m, _ := glob.Match(pat, n)
		wantm[i] = m
		if m {
			want++
		}
	}
	got := -1
	switch consumer {
	case 0, 1: // SCAN k MATCH pat IDS over ids
		for _, n := range names {
			vhDo(s, "SET", "k", n, "STRING", "v")
		}
		q := []string{"SCAN", "k"}
		if consumer == 1 {
			q = append(q, "DESC")
		}
		r, _, err := vhDo(s, append(q, "MATCH", pat, "IDS")...)
		if err == nil {
			_, l := vhIDsOf(r)
			got = len(l)
			for _, id := range l {
				ok := false
				for i, n := range names {
					if n == id && wantm[i] {
						ok = true
					}
				}
				vassert("C12.K1.scan_match_returns_only_matching", ok)
			}
		}
	case 2: // KEYS pat over collection names
		for _, n := range names {
			vhDo(s, "SET", n, "x", "STRING", "v")
		}
		r, _, err := vhDo(s, "KEYS", pat)
		if err == nil {
			got = len(r.Array())
		}
	case 3: // PDEL k pat
		for _, n := range names {
			vhDo(s, "SET", "k", n, "STRING", "v")
		}
		r, _, err := vhDo(s, "PDEL", "k", pat)
		if err == nil {
			got = r.Integer()
			left := 0
			for i, n := range names {
				ex, _, _ := vhDo(s, "EXISTS", "k", n)
				if ex.Integer() == 1 {
					left++
					vassert("C12.K1.pdel_keeps_only_non_matching", !wantm[i])
				}
			}
			vassert("C12.K1.pdel_deletes_every_match", left == 3-want)
		}
	case 4: // CHANS pat
		for _, n := range names {
			vhDo(s, "SETCHAN", n, "WITHIN", "k", "FENCE", "BOUNDS", "0", "0", "1", "1")
		}
		r, _, err := vhDo(s, "CHANS", pat)
		if err == nil {
			got = len(r.Array())
		}
	case 5: // PDELCHAN pat
		for _, n := range names {
			vhDo(s, "SETCHAN", n, "WITHIN", "k", "FENCE", "BOUNDS", "0", "0", "1", "1")
		}
		r, _, err := vhDo(s, "PDELCHAN", pat)
		if err == nil {
			got = r.Integer()
		}
	case 6: // HOOKS pat
		for _, n := range names {
			_, _, err := vhDo(s, "SETHOOK", n, "http://h/", "WITHIN", "k", "FENCE", "BOUNDS", "0", "0", "1", "1")
			vassert("C12.K1.sethook_ok", err == nil)
		}
		r, _, err := vhDo(s, "HOOKS", pat)
		if err == nil {
			got = len(r.Array())
		}
	default: // PDELHOOK pat
		for _, n := range names {
			vhDo(s, "SETHOOK", n, "http://h/", "WITHIN", "k", "FENCE", "BOUNDS", "0", "0", "1", "1")
		}
		r, _, err := vhDo(s, "PDELHOOK", pat)
		if err == nil {
			got = r.Integer()
			left, _, _ := vhDo(s, "HOOKS", "*")
			vassert("C12.K1.pdelhook_deletes_every_match", len(left.Array()) == 3-want)
		}
	}
	vobs("consumer", consumer, pat, names[0], names[1], names[2], want, got)
	if got == -1 {
		// the command was rejected: only acceptable for an empty pattern
		vreach("rejected")
		vassert("C12.K1.only_empty_patterns_are_rejected", pat == "")
		return
	}
	kf := vknown("C12-glob-prefix-ff") && vhPrefixEndsFF(pat)
	vassertK("C12.K1.consumer_selects_exactly_the_matching_names", got == want, kf, "C12-glob-prefix-ff")
}

func vhPrefixEndsFF(p string) bool {
	n := 0
	for n < len(p) && p[n] != '*' && p[n] != '?' && p[n] != '[' && p[n] != '\\' {
		n++
	}
	return n > 0 && p[n-1] == 0xFF
}

// VH_C12_search_match: for SEARCH, MATCH filters the VALUES (which need not be unique) - literal patterns, globs
// and the range shortcut alike: exactly the objects whose value matches come back, in value order, ASC or DESC,
// and COUNT agrees.
//verif:cfg quick.b_objects=4(values:_2_x_1_symbolic_byte,_duplicates_allowed,+m,+mm) thorough.b_objects=4(values:_3_x_1_symbolic_byte,+mm) quick.b_pattern_bytes=0..2 thorough.b_pattern_bytes=0..3 b_order=ASC|DESC ignorego=1
func VH_C12_search_match() {
	s := vhServer()
	np := 2
	if vthorough() {
		np = 3
	}
	pat := vnondetString(np)
	vals := [4]string{vnondetStringN(1), vnondetStringN(1), "m", "mm"}
	if vthorough() {
		vals[2] = vnondetStringN(1)
	}
	ids := [4]string{"id3", "id1", "id4", "id2"}
	for i := range vals {
		_, _, err := vhDo(s, "SET", "k", ids[i], "STRING", vals[i])
		vassert("C12.K1.search_dataset", err == nil)
	}
	vhDo(s, "SET", "k", "pt", "POINT", "1", "1") // not a string: never part of a SEARCH
	desc := vnondetBool()
	q := []string{"SEARCH", "k"}
	if desc {
		q = append(q, "DESC")
	}
	q = append(q, "MATCH", pat)
	r, _, err := vhDo(s, append(append([]string(nil), q...), "IDS")...)
	if err != nil {
		vreach("search-rejected")
		vassert("C12.K1.only_empty_patterns_are_rejected", pat == "")
		return
	}
	_, got := vhIDsOf(r)
	want := 0
	for i := range vals {
		m, _ := glob.Match(pat, vals[i])
		found := 0
		for _, id := range got {
			if id == ids[i] {
				found++
			}
		}
		if m {
			want++
		}
		kf := vknown("C12-glob-prefix-ff") && vhPrefixEndsFF(pat)
		vassertK("C12.K1.search_match_filters_values", found == vhB2I(m), kf, "C12-glob-prefix-ff")
	}
	kf := vknown("C12-glob-prefix-ff") && vhPrefixEndsFF(pat)
	vassertK("C12.K1.search_match_nothing_else", len(got) == want, kf, "C12-glob-prefix-ff")
	cnt := vhCountOf(s, append(append([]string(nil), q...), "COUNT")...)
	vassert("C12.K3.search_match_count_equals_ids", cnt == len(got))
	vobs("searchmatch", pat, vals[0], vals[1], vals[2], desc, len(got))
}

// ---- WHERE / WHEREIN against the documented value order -------------------------------------------------------
//   kinds: Null < False < Number < String < True < JSON; numbers numerically, strings by lower-cased bytes,
//   other kinds by data; a missing field reads as the number 0.

func vhLowerLessS(a, b string) bool {
	n := len(a)
	if len(b) < n {
		n = len(b)
	}
	for i := 0; i < n; i++ {
		x, y := a[i], b[i]
		if x >= 'A' && x <= 'Z' {
			x += 32
		}
		if y >= 'A' && y <= 'Z' {
			y += 32
		}
		if x != y {
			return x < y
		}
	}
	return len(a) < len(b)
}

func vhSpecLessV(a, b field.Value) bool {
	if a.Kind() != b.Kind() {
		return a.Kind() < b.Kind()
	}
	switch a.Kind() {
	case field.Number:
		return a.Num() < b.Num()
	case field.String:
		return vhLowerLessS(a.Data(), b.Data())
	}
	return a.Data() < b.Data()
}

func vhSpecEq(a, b field.Value) bool { return !vhSpecLessV(a, b) && !vhSpecLessV(b, a) }

// the objects of the WHERE dataset: id -> text given to FIELD f ("" = the object has no field f)
var vhWhereObjs = [][2]string{
	{"a_missing", ""}, {"b_neg", "-1"}, {"c_half", "0.5"}, {"d_one", "1"}, {"e_str", "abc"}, {"f_STR", "ABD"},
	{"g_true", "true"}, {"h_false", "false"}, {"i_null", "null"}, {"j_json", `{"a":1}`}, {"k_numstr", `"1"`},
}

// bounds / operands a WHERE clause may carry
var vhWhereArgs = []string{"-1", "0", "0.5", "1", "2", "-inf", "inf", "abc", "abd", "true", "false", "null", `{"a":1}`}

func vhWhereValue(text string) field.Value {
	if text == "" {
		return field.ValueOf("0")
	}
	return field.ValueOf(text)
}

//verif:cfg b_dataset=11_objects(field_missing|negative|fraction|1|two_strings_differing_in_case|true|false|null|JSON|quoted_number) b_where=range_form(min,max_from_13_operands,each_inclusive_or_exclusive)|operator_form(<,<=,>,>=,==,!=_x_13_operands)|WHEREIN(2_of_13_operands)|expression_form(field_op_number,_decided_for_numeric_and_missing_fields) b_queries=SCAN|SEARCH(strings)|WITHIN ignorego=1
func VH_C12_where() {
	s := vhServer()
	q := vchoose(3)
	form := vchoose(4)
	for i, o := range vhWhereObjs {
		if form == 3 && o[0] == "j_json" {
			continue // expressions hand JSON field values to the expression library as opaque objects (not modelled)
		}
		args := []string{"SET", "k", o[0]}
		if o[1] != "" {
			args = append(args, "FIELD", "f", o[1])
		}
		if q == 1 {
			args = append(args, "STRING", "v"+vhDigits[i])
		} else {
			args = append(args, "POINT", vhDigits[i], vhDigits[i])
		}
		_, _, err := vhDo(s, args...)
		vassert("C12.K2.where_dataset", err == nil)
	}
	var filter []string
	var want func(v field.Value) bool
	numericOnly := false
	a := vhWhereArgs[vchoose(len(vhWhereArgs))]
	b := vhWhereArgs[vchoose(len(vhWhereArgs))]
	switch form {
	case 0: // WHERE f min max, each bound inclusive or exclusive
		minx, maxx := vnondetBool(), vnondetBool()
		smin, smax := a, b
		if minx {
			smin = "(" + smin
		}
		if maxx {
			smax = "(" + smax
		}
		filter = []string{"WHERE", "f", smin, smax}
		lo, hi := field.ValueOf(a), field.ValueOf(b)
		want = func(v field.Value) bool {
			okLo := !vhSpecLessV(v, lo)
			if minx {
				okLo = vhSpecLessV(lo, v)
			}
			okHi := !vhSpecLessV(hi, v)
			if maxx {
				okHi = vhSpecLessV(v, hi)
			}
			return okLo && okHi
		}
	case 1: // WHERE f op operand
		op := vchoose(6)
		filter = []string{"WHERE", "f", [6]string{"<", "<=", ">", ">=", "==", "!="}[op], a}
		x := field.ValueOf(a)
		want = func(v field.Value) bool {
			switch op {
			case 0:
				return vhSpecLessV(v, x)
			case 1:
				return !vhSpecLessV(x, v)
			case 2:
				return vhSpecLessV(x, v)
			case 3:
				return !vhSpecLessV(v, x)
			case 4:
				return vhSpecEq(v, x)
			}
			return !vhSpecEq(v, x)
		}
	case 3: // WHERE "f <op> number": an expression; decided here for the objects whose field is a number or missing
		op := vchoose(6)
		if field.ValueOf(a).Kind() != field.Number || a == "inf" || a == "-inf" {
			return
		}
		filter = []string{"WHERE", "f " + [6]string{"<", "<=", ">", ">=", "==", "!="}[op] + " " + a}
		numericOnly = true
		x := field.ValueOf(a)
		want = func(v field.Value) bool {
			switch op {
			case 0:
				return v.Num() < x.Num()
			case 1:
				return v.Num() <= x.Num()
			case 2:
				return v.Num() > x.Num()
			case 3:
				return v.Num() >= x.Num()
			case 4:
				return v.Num() == x.Num()
			}
			return v.Num() != x.Num()
		}
	default: // WHEREIN f 2 a b
		filter = []string{"WHEREIN", "f", "2", a, b}
		x, y := field.ValueOf(a), field.ValueOf(b)
		want = func(v field.Value) bool { return vhSpecEq(v, x) || vhSpecEq(v, y) }
	}
	var args []string
	switch q {
	case 0:
		args = append([]string{"SCAN", "k"}, filter...)
		args = append(args, "LIMIT", "100", "IDS")
	case 1:
		args = append([]string{"SEARCH", "k"}, filter...)
		args = append(args, "LIMIT", "100", "IDS")
	default:
		args = append([]string{"WITHIN", "k"}, filter...)
		args = append(args, "LIMIT", "100", "IDS", "BOUNDS", "-1", "-1", "50", "50")
	}
	r, _, err := vhDo(s, args...)
	if err != nil {
		vreach("where-rejected")
		return
	}
	_, got := vhIDsOf(r)
	n := 0
	for _, o := range vhWhereObjs {
		if numericOnly && (vhWhereValue(o[1]).Kind() != field.Number || o[0] == "j_json") {
			continue
		}
		w := want(vhWhereValue(o[1]))
		found := false
		for _, id := range got {
			if id == o[0] {
				found = true
			}
		}
		if w {
			n++
		}
		vassert("C12.K2.where_keeps_exactly_the_satisfying_objects", found == w)
	}
	if !numericOnly {
		vassert("C12.K2.where_no_extra_ids", len(got) == n)
	}
	vobs("where", q, form, a, b, n)
}
