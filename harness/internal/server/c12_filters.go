package server

import (
	"github.com/tidwall/tile38/internal/glob"
)

// C12-K3: COUNT equals the number of items the same query returns as IDS, for every query kind and filter
// combination; ASC/DESC only reverse. C12-K1 (consumers): MATCH / KEYS / PDEL / CHANS / PDELCHAN select exactly
// the names that glob.Match accepts, for symbolic names and patterns (the range shortcut never changes results).

func vhCountOf(s *Server, args ...string) int {
	r, _, err := vhDo(s, args...)
	if err != nil {
		return -1
	}
	return r.Integer()
}

//verif:cfg b_queries=SCAN,SEARCH,WITHIN,INTERSECTS,NEARBY b_filters=none|WHERE|WHEREIN|MATCH|WHERE+MATCH b_dataset=2_points+2_strings_with_fields ignorego=1
func VH_C12_count_equals_ids() {
	s := vhServer()
	vhDo(s, "SET", "k", "a1", "FIELD", "f", "1", "POINT", "1", "1")
	vhDo(s, "SET", "k", "a2", "FIELD", "f", "5", "POINT", "2", "2")
	vhDo(s, "SET", "k", "b1", "FIELD", "f", "3", "STRING", "apple")
	vhDo(s, "SET", "k", "b2", "STRING", "banana")
	var head, area []string
	switch vchoose(5) {
	case 0:
		head = []string{"SCAN", "k"}
	case 1:
		head = []string{"SEARCH", "k"}
	case 2:
		head, area = []string{"WITHIN", "k"}, []string{"BOUNDS", "0", "0", "10", "10"}
	case 3:
		head, area = []string{"INTERSECTS", "k"}, []string{"BOUNDS", "0", "0", "10", "10"}
	default:
		head, area = []string{"NEARBY", "k"}, []string{"POINT", "1", "1"}
	}
	var filter []string
	switch vchoose(6) {
	case 1:
		filter = []string{"WHERE", "f", "2", "9"}
	case 2:
		filter = []string{"WHEREIN", "f", "2", "1", "3"}
	case 3:
		filter = []string{"MATCH", "a*"}
	case 4:
		filter = []string{"WHERE", "f", "0", "4", "MATCH", "*1"}
	case 5:
		filter = []string{"WHERE", "f", "0", "0"} // missing fields read as 0
	}
	desc := vnondetBool()
	q := append([]string(nil), head...)
	if desc && (head[0] == "SCAN" || head[0] == "SEARCH") {
		q = append(q, "DESC")
	}
	q = append(q, filter...)
	ids, _, err := vhDo(s, append(append(append([]string(nil), q...), "IDS"), area...)...)
	vassert("C12.K3.ids_query_ok", err == nil)
	_, list := vhIDsOf(ids)
	cnt := vhCountOf(s, append(append(append([]string(nil), q...), "COUNT"), area...)...)
	vobs("count", head[0], len(filter), desc, len(list), cnt)
	vassert("C12.K3.count_equals_number_of_ids", cnt == len(list))
	if head[0] == "SCAN" || head[0] == "SEARCH" {
		// the other direction returns the same items reversed
		q2 := append([]string(nil), head...)
		if !desc {
			q2 = append(q2, "DESC")
		}
		q2 = append(q2, filter...)
		ids2, _, _ := vhDo(s, append(q2, "IDS")...)
		_, list2 := vhIDsOf(ids2)
		rev := len(list) == len(list2)
		for i := range list2 {
			if rev && list2[i] != list[len(list)-1-i] {
				rev = false
			}
		}
		vassert("C12.K3.desc_only_reverses", rev)
	}
}

// VH_C12_match_consumers: names and pattern symbolic; every consumer of the range shortcut against a plain
// filter by glob.Match.
//verif:cfg quick.b_pattern_bytes=0..2 thorough.b_pattern_bytes=0..3 quick.b_names=3_x_1_symbolic_byte thorough.b_names=3_x_1..2_symbolic_bytes maxwall=3000 b_consumers=SCAN_MATCH,SCAN_DESC_MATCH,KEYS,PDEL,CHANS,PDELCHAN ignorego=1
func VH_C12_match_consumers() {
	s := vhServer()
	np := 2
	if vthorough() {
		np = 3
	}
	pat := vnondetString(np)
	var names [3]string
	if vthorough() {
		names = [3]string{vnondetString(2), vnondetString(2), vnondetString(2)}
	} else {
		names = [3]string{vnondetStringN(1), vnondetStringN(1), vnondetStringN(1)}
	}
	vassume(names[0] != "" && names[1] != "" && names[2] != "")
	vassume(names[0] != names[1] && names[0] != names[2] && names[1] != names[2])
	consumer := vchoose(6)
	want := 0
	var wantm [3]bool
	for i, n := range names {
		m, _ := glob.Match(pat, n)
		wantm[i] = m
		if m {
			want++
		}
	}
	got := -1
	switch consumer {
	case 0, 1: // SCAN k MATCH pat IDS over ids
		for _, n := range names {
			vhDo(s, "SET", "k", n, "STRING", "v")
		}
		q := []string{"SCAN", "k"}
		if consumer == 1 {
			q = append(q, "DESC")
		}
		r, _, err := vhDo(s, append(q, "MATCH", pat, "IDS")...)
		if err == nil {
			_, l := vhIDsOf(r)
			got = len(l)
			for _, id := range l {
				ok := false
				for i, n := range names {
					if n == id && wantm[i] {
						ok = true
					}
				}
				vassert("C12.K1.scan_match_returns_only_matching", ok)
			}
		}
	case 2: // KEYS pat over collection names
		for _, n := range names {
			vhDo(s, "SET", n, "x", "STRING", "v")
		}
		r, _, err := vhDo(s, "KEYS", pat)
		if err == nil {
			got = len(r.Array())
		}
	case 3: // PDEL k pat
		for _, n := range names {
			vhDo(s, "SET", "k", n, "STRING", "v")
		}
		r, _, err := vhDo(s, "PDEL", "k", pat)
		if err == nil {
			got = r.Integer()
			left := 0
			for i, n := range names {
				ex, _, _ := vhDo(s, "EXISTS", "k", n)
				if ex.Integer() == 1 {
					left++
					vassert("C12.K1.pdel_keeps_only_non_matching", !wantm[i])
				}
			}
			vassert("C12.K1.pdel_deletes_every_match", left == 3-want)
		}
	case 4: // CHANS pat
		for _, n := range names {
			vhDo(s, "SETCHAN", n, "WITHIN", "k", "FENCE", "BOUNDS", "0", "0", "1", "1")
		}
		r, _, err := vhDo(s, "CHANS", pat)
		if err == nil {
			got = len(r.Array())
		}
	default: // PDELCHAN pat
		for _, n := range names {
			vhDo(s, "SETCHAN", n, "WITHIN", "k", "FENCE", "BOUNDS", "0", "0", "1", "1")
		}
		r, _, err := vhDo(s, "PDELCHAN", pat)
		if err == nil {
			got = r.Integer()
		}
	}
	vobs("consumer", consumer, pat, names[0], names[1], names[2], want, got)
	if got == -1 {
		// the command was rejected: only acceptable for an empty pattern
		vreach("rejected")
		vassert("C12.K1.only_empty_patterns_are_rejected", pat == "")
		return
	}
	kf := vknown("C12-glob-prefix-ff") && vhPrefixEndsFF(pat)
	vassertK("C12.K1.consumer_selects_exactly_the_matching_names", got == want, kf, "C12-glob-prefix-ff")
}

func vhPrefixEndsFF(p string) bool {
	n := 0
	for n < len(p) && p[n] != '*' && p[n] != '?' && p[n] != '[' && p[n] != '\\' {
		n++
	}
	return n > 0 && p[n-1] == 0xFF
}
