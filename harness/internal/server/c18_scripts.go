package server

import (
	lua "github.com/yuin/gopher-lua"
)

// C18-K2: whatever the outcome of a script call (success, run-time error, compile error, unknown SHA,
// wrong arity), the interpreter that goes back to the pool no longer holds that call's KEYS / ARGV / EVAL_CMD.
// Real cmdEvalUnified and the real gopher-lua VM.
//verif:cfg b_outcomes=success|runtime_error|compile_error|unknown_sha|missing_key_argument b_variants=EVAL,EVALRO,EVALNA ignorego=1
func VH_C18_globals_cleared() {
	s := vhServer()
	s.luascripts = s.newScriptMap()
	s.luapool = s.newPool()
	cmd := [3]string{"EVAL", "EVALRO", "EVALNA"}[vchoose(3)]
	var args []string
	outcome := vchoose(5)
	switch outcome {
	case 0:
		args = []string{cmd, "return KEYS[1]", "1", "secretkey", "secretarg"}
	case 1:
		args = []string{cmd, "error('boom')", "1", "secretkey", "secretarg"}
	case 2:
		args = []string{cmd, "return ((", "1", "secretkey", "secretarg"}
	case 3:
		args = []string{cmd + "SHA", "0123456789012345678901234567890123456789", "1", "secretkey", "secretarg"}
	default:
		args = []string{cmd, "return 1", "2", "secretkey"}
	}
	_, _, err := vhDo(s, args...)
	vobs("outcome", outcome, err != nil)
	vassert("C18.K2.outcome_as_expected", (err == nil) == (outcome == 0))
	// the pool is LIFO: this is the interpreter the call used
	L, perr := s.luapool.Get()
	vassert("C18.K2.pool_get", perr == nil)
	vassert("C18.K2.keys_cleared", L.GetGlobal("KEYS") == lua.LNil)
	vassert("C18.K2.argv_cleared", L.GetGlobal("ARGV") == lua.LNil)
	vassert("C18.K2.eval_cmd_cleared", L.GetGlobal("EVAL_CMD") == lua.LNil)
	s.luapool.Put(L)
}

// VH_C18_readonly_and_atomic: EVALRO can never modify data (any write command from the script is refused and
// nothing changes); EVAL holds the exclusive lock once around all of its calls; EVALNA takes the lock per call.
//verif:cfg b_script_calls=every_write_command_of_the_script_dispatcher b_script_prologue=none|assigns_EVAL_CMD(eval|evalna|evalro) ignorego=1
func VH_C18_readonly_and_atomic() {
	s, lk := vhGateServer()
	writes := [][]string{
		{"set", "fleet", "truck9", "POINT", "1", "2"}, {"del", "fleet", "truck1"}, {"drop", "fleet"},
		{"fset", "fleet", "truck1", "speed", "1"}, {"flushdb"}, {"expire", "fleet", "truck1", "5"},
		{"persist", "fleet", "truck4"}, {"jset", "user", "u1", "age", "5"}, {"pdel", "fleet", "t*"},
		{"rename", "fleet", "cars"}, {"renamenx", "fleet", "cars"}, {"jdel", "user", "u1", "name"},
		{"setchan", "c9", "WITHIN", "fleet", "FENCE", "BOUNDS", "0", "0", "1", "1"}, {"delchan", "ch1"},
	}
	w := writes[vchoose(len(writes))]
	// a script can assign to the globals its call was given (only NEW globals are refused)
	prologue := [4]string{"", "EVAL_CMD = 'eval' ", "EVAL_CMD = 'evalna' ", "EVAL_CMD = 'evalro' "}[vchoose(4)]
	script := prologue + "return tile38.call("
	for i, a := range w {
		if i > 0 {
			script += ","
		}
		script += "'" + a + "'"
	}
	script += ")"
	before := vhSnapshot(s)
	variant := vchoose(3)
	cmd := [3]string{"EVALRO", "EVAL", "EVALNA"}[variant]
	client := &Client{}
	msg := &Message{Args: []string{cmd, script, "0"}, ConnType: RESP, OutputType: RESP}
	aofBefore := len(s.aofbuf)
	lk.log = ""
	s.handleInputCommand(client, msg)
	after := vhSnapshot(s)
	vobs("script", cmd, prologue, w[0], before != after, lk.log)
	switch variant {
	case 0:
		vassert("C18.K1.evalro_never_modifies", before == after && len(s.aofbuf) == aofBefore)
		vassert("C18.K1.evalro_write_is_refused", vhIsErrorReply(string(client.out), false))
		vassert("C18.K1.evalro_shared_lock", lk.log == "Rr")
	case 1:
		vassert("C18.K1.eval_one_exclusive_section", lk.log == "LU")
		if before != after {
			vassert("C18.K1.eval_write_logged_before_unlock", len(s.aofbuf) > aofBefore && lk.aofAtUnlock == len(s.aofbuf))
		}
	default:
		if before != after {
			vassert("C18.K1.evalna_write_under_exclusive_lock", lk.log == "LU")
			vassert("C18.K1.evalna_write_logged_before_unlock", len(s.aofbuf) > aofBefore && lk.aofAtUnlock == len(s.aofbuf))
		}
	}
}
