package server

import (
	"github.com/tidwall/resp"
	lua "github.com/yuin/gopher-lua"
)

// C18-K2: whatever the outcome of a script call (success, run-time error, compile error, unknown SHA,
// wrong arity), the interpreter that goes back to the pool no longer holds that call's KEYS / ARGV.
// Real cmdEvalUnified and the real gopher-lua VM.
//verif:cfg b_outcomes=success|runtime_error|compile_error|unknown_sha|missing_key_argument b_variants=EVAL,EVALRO,EVALNA ignorego=1
func VH_C18_globals_cleared() {
	s := vhServer()
	s.luascripts = s.newScriptMap()
	s.luapool = s.newPool()
	cmd := [3]string{"EVAL", "EVALRO", "EVALNA"}[vchoose(3)]
	var args []string
	outcome := vchoose(5)
	switch outcome {
	case 0:
		args = []string{cmd, "return KEYS[1]", "1", "secretkey", "secretarg"}
	case 1:
		args = []string{cmd, "error('boom')", "1", "secretkey", "secretarg"}
	case 2:
		args = []string{cmd, "return ((", "1", "secretkey", "secretarg"}
	case 3:
		args = []string{cmd + "SHA", "0123456789012345678901234567890123456789", "1", "secretkey", "secretarg"}
	default:
		args = []string{cmd, "return 1", "2", "secretkey"}
	}
	_, _, err := vhDo(s, args...)
	vobs("outcome", outcome, err != nil)
	vassert("C18.K2.outcome_as_expected", (err == nil) == (outcome == 0))
	// the pool is LIFO: this is the interpreter the call used
	L, perr := s.luapool.Get()
	vassert("C18.K2.pool_get", perr == nil)
	vassert("C18.K2.keys_cleared", L.GetGlobal("KEYS") == lua.LNil)
	vassert("C18.K2.argv_cleared", L.GetGlobal("ARGV") == lua.LNil)
	// and it no longer carries the finished call's authority: code that borrows this interpreter next (a WHEREEVAL
	// filter does) cannot write through tile38.call
	before := vhSnapshot(s)
	aofBefore := len(s.aofbuf)
	L.DoString("return tile38.pcall('set','leak','x','POINT',1,2)")
	L.SetTop(0)
	vassert("C18.K2.pooled_interpreter_cannot_write", vhSnapshot(s) == before && len(s.aofbuf) == aofBefore)
	s.luapool.Put(L)
}

// VH_C18_readonly_and_atomic: EVALRO can never modify data (any write command from the script is refused and
// nothing changes); EVAL holds the exclusive lock once around all of its calls; EVALNA takes the lock per call.
//verif:cfg b_script_calls=every_write_command_of_the_script_dispatcher b_script_prologue=none|assigns_EVAL_CMD(eval|evalna|evalro) ignorego=1
func VH_C18_readonly_and_atomic() {
	s, lk := vhGateServer()
	writes := [][]string{
		{"set", "fleet", "truck9", "POINT", "1", "2"}, {"del", "fleet", "truck1"}, {"drop", "fleet"},
		{"fset", "fleet", "truck1", "speed", "1"}, {"flushdb"}, {"expire", "fleet", "truck1", "5"},
		{"persist", "fleet", "truck4"}, {"jset", "user", "u1", "age", "5"}, {"pdel", "fleet", "t*"},
		{"rename", "fleet", "cars"}, {"renamenx", "fleet", "cars"}, {"jdel", "user", "u1", "name"},
		{"setchan", "c9", "WITHIN", "fleet", "FENCE", "BOUNDS", "0", "0", "1", "1"}, {"delchan", "ch1"},
	}
	w := writes[vchoose(len(writes))]
	// a script can assign to the globals its call was given (only NEW globals are refused)
	prologue := [4]string{"", "EVAL_CMD = 'eval' ", "EVAL_CMD = 'evalna' ", "EVAL_CMD = 'evalro' "}[vchoose(4)]
	script := prologue + "return tile38.call("
	for i, a := range w {
		if i > 0 {
			script += ","
		}
		script += "'" + a + "'"
	}
	script += ")"
	before := vhSnapshot(s)
	variant := vchoose(3)
	cmd := [3]string{"EVALRO", "EVAL", "EVALNA"}[variant]
	client := &Client{}
	msg := &Message{Args: []string{cmd, script, "0"}, ConnType: RESP, OutputType: RESP}
	aofBefore := len(s.aofbuf)
	lk.log = ""
	s.handleInputCommand(client, msg)
	after := vhSnapshot(s)
	vobs("script", cmd, prologue, w[0], before != after, lk.log)
	switch variant {
	case 0:
		vassert("C18.K1.evalro_never_modifies", before == after && len(s.aofbuf) == aofBefore)
		vassert("C18.K1.evalro_write_is_refused", vhIsErrorReply(string(client.out), false))
		vassert("C18.K1.evalro_shared_lock", lk.log == "Rr")
	case 1:
		vassert("C18.K1.eval_one_exclusive_section", lk.log == "LU")
		if before != after {
			vassert("C18.K1.eval_write_logged_before_unlock", len(s.aofbuf) > aofBefore && lk.aofAtUnlock == len(s.aofbuf))
		}
	default:
		if before != after {
			vassert("C18.K1.evalna_write_under_exclusive_lock", lk.log == "LU")
			vassert("C18.K1.evalna_write_logged_before_unlock", len(s.aofbuf) > aofBefore && lk.aofAtUnlock == len(s.aofbuf))
		}
	}
}

// VH_C18_script_cache: SCRIPT LOAD / EXISTS / FLUSH and EVALSHA: a loaded script runs by its SHA exactly as by its
// text (same reply, per-call KEYS/ARGV, no globals left behind), an unknown or flushed SHA is an error and runs nothing.
//verif:cfg b_scripts=3 b_variants=EVALSHA,EVALROSHA,EVALNASHA b_steps=load,exists,evalsha_twice_with_different_arguments,eval_by_text,flush,evalsha_again ignorego=1
func VH_C18_script_cache() {
	s, _ := vhGateServer()
	scripts := [3]string{"return KEYS[1] .. ARGV[1]", "return tile38.call('get', KEYS[1], ARGV[1])", "return {KEYS[1], ARGV[1], #KEYS, #ARGV}"}
	script := scripts[vchoose(3)]
	v := vchoose(3)
	sha := [3]string{"EVALSHA", "EVALROSHA", "EVALNASHA"}[v]
	txt := [3]string{"EVAL", "EVALRO", "EVALNA"}[v]
	r, _, err := vhDo(s, "SCRIPT", "LOAD", script)
	vassert("C18.K3.load_returns_sha1_of_text", err == nil && r.String() == Sha1Sum(script))
	id := r.String()
	ex, _, _ := vhDo(s, "SCRIPT", "EXISTS", id, "0000000000000000000000000000000000000000")
	vassert("C18.K3.exists", len(ex.Array()) == 2 && ex.Array()[0].Integer() == 1 && ex.Array()[1].Integer() == 0)
	a1, _, e1 := vhDo(s, sha, id, "1", "fleet", "truck1")
	b1, _, e2 := vhDo(s, txt, script, "1", "fleet", "truck1")
	vassert("C18.K3.sha_runs_as_text", e1 == nil && e2 == nil && vhRender(a1) == vhRender(b1))
	// a second call with other arguments sees its own KEYS / ARGV only
	a2, _, e3 := vhDo(s, sha, id, "1", "fleet", "truck2")
	b2, _, e4 := vhDo(s, txt, script, "1", "fleet", "truck2")
	vassert("C18.K3.second_call_sees_its_own_arguments", e3 == nil && e4 == nil && vhRender(a2) == vhRender(b2) && vhRender(a2) != vhRender(a1))
	before := vhSnapshot(s)
	_, _, e5 := vhDo(s, "SCRIPT", "FLUSH")
	vassert("C18.K3.flush_ok", e5 == nil)
	ex2, _, _ := vhDo(s, "SCRIPT", "EXISTS", id)
	vassert("C18.K3.flushed_script_is_gone", len(ex2.Array()) == 1 && ex2.Array()[0].Integer() == 0)
	_, _, e6 := vhDo(s, sha, id, "1", "fleet", "truck1")
	vassert("C18.K3.flushed_sha_is_an_error", e6 != nil)
	vassert("C18.K3.reads_changed_nothing", vhSnapshot(s) == before)
	L, _ := s.luapool.Get()
	vassert("C18.K2.keys_cleared", L.GetGlobal("KEYS") == lua.LNil && L.GetGlobal("ARGV") == lua.LNil)
	s.luapool.Put(L)
	vobs("cache", v, vhRender(a1), vhRender(a2))
}

func vhRender(v resp.Value) string {
	if v.Type() == resp.Array {
		out := "["
		for _, e := range v.Array() {
			out += vhRender(e) + ","
		}
		return out + "]"
	}
	return v.String()
}

// VH_C18_sandbox: the global environment of a pooled interpreter is exactly the allow-list (concrete run of the real
// pool constructor and VM; nothing symbolic here except the choice of probe): no io / package / debug / load /
// require / dofile, os reduced to clock and difftime, and a script cannot create a global, directly or through _G.
//verif:cfg b_probes=16_scripts+enumeration_of_the_global_table ignorego=1
func VH_C18_sandbox() {
	s, _ := vhGateServer()
	L, err := s.luapool.Get()
	vassert("C18.K4.pool_get", err == nil)
	allowed := map[string]bool{"_G": true, "_VERSION": true, "_GOPHER_LUA_VERSION": true, "tonumber": true, "tostring": true,
		"table": true, "math": true, "string": true, "os": true, "tile38": true, "json": true}
	extra, n := "", 0
	L.G.Global.ForEach(func(k, v lua.LValue) {
		n++
		if !allowed[k.String()] {
			extra += k.String() + " "
		}
	})
	vassert("C18.K4.globals_are_exactly_the_allow_list", extra == "" && n == len(allowed))
	osn, osbad := 0, false
	if t, ok := L.GetGlobal("os").(*lua.LTable); ok {
		t.ForEach(func(k, v lua.LValue) {
			osn++
			if k.String() != "clock" && k.String() != "difftime" {
				osbad = true
			}
		})
	}
	vassert("C18.K4.os_is_clock_and_difftime_only", osn == 2 && !osbad)
	s.luapool.Put(L)
	probes := [][2]string{
		// {script, "err" = must fail | "nil" = must return nil}
		{"x = 1 return 1", "err"}, {"_G.x = 1 return 1", "err"}, {"_G['y'] = 1 return 1", "err"},
		{"local t = _G t.z = 1 return 1", "err"}, {"function f() end return 1", "err"},
		{"return io", "nil"}, {"return require", "nil"}, {"return dofile", "nil"}, {"return loadfile", "nil"},
		{"return load", "nil"}, {"return loadstring", "nil"}, {"return package", "nil"}, {"return debug", "nil"},
		{"return rawset", "nil"}, {"return setmetatable", "nil"}, {"return os.execute", "nil"},
	}
	p := probes[vchoose(len(probes))]
	before := vhSnapshot(s)
	r, _, e := vhDo(s, "EVAL", p[0], "0")
	if p[1] == "err" {
		vassert("C18.K4.creating_a_global_is_refused", e != nil)
	} else {
		vassert("C18.K4.forbidden_library_is_absent", e == nil && r.IsNull())
	}
	vassert("C18.K4.probe_changes_nothing", vhSnapshot(s) == before)
	L2, _ := s.luapool.Get()
	leaked := L2.GetGlobal("x") != lua.LNil || L2.GetGlobal("y") != lua.LNil || L2.GetGlobal("z") != lua.LNil || L2.GetGlobal("f") != lua.LNil
	vassert("C18.K4.no_global_was_created", !leaked)
	s.luapool.Put(L2)
	vobs("sandbox", p[0])
}

// VH_C18_args_do_not_survive: whatever a script does to its KEYS / ARGV tables (append, assign, with or without
// keys and arguments of its own), the next call on the same pooled interpreter - by any client, of any kind - sees
// exactly its own keys and arguments: the same reply as on a fresh server.
//verif:cfg b_first_call=EVAL|EVALRO|EVALNA_x_0..1_keys_x_0..1_args_x_4_scripts(insert_into_KEYS,_assign_ARGV,_both,_read_only) b_second_call=EVAL|EVALRO_x_0..1_keys_x_0..1_args ignorego=1
func VH_C18_args_do_not_survive() {
	mk := func() *Server {
		s := vhServer()
		s.luascripts = s.newScriptMap()
		s.luapool = s.newPool()
		return s
	}
	s := mk()
	mut := [4]string{
		"table.insert(KEYS, 'leak') return #KEYS",
		"ARGV[1] = 'leak' ARGV[2] = 'leak2' return #ARGV",
		"KEYS[#KEYS+1] = 'k' ARGV[#ARGV+1] = 'a' KEYS.x = 'y' return 1",
		"return #KEYS + #ARGV",
	}[vchoose(4)]
	call := func(srv *Server, cmd, script string, nk, na int) (string, error) {
		args := []string{cmd, script, vhDigits[nk]}
		for i := 0; i < nk; i++ {
			args = append(args, "key"+vhDigits[i])
		}
		for i := 0; i < na; i++ {
			args = append(args, "arg"+vhDigits[i])
		}
		r, _, err := vhDo(srv, args...)
		return vhRender(r), err
	}
	c1 := [3]string{"EVAL", "EVALRO", "EVALNA"}[vchoose(3)]
	_, err := call(s, c1, mut, vchoose(2), vchoose(2))
	vassert("C18.K2.first_call_runs", err == nil)
	probe := "return {#KEYS, #ARGV, KEYS[1] or 'nil', KEYS[2] or 'nil', ARGV[1] or 'nil', ARGV[2] or 'nil', KEYS.x or 'nil', tostring(KEYS == ARGV)}"
	c2 := [2]string{"EVAL", "EVALRO"}[vchoose(2)]
	nk, na := vchoose(2), vchoose(2)
	got, err2 := call(s, c2, probe, nk, na)
	want, err3 := call(mk(), c2, probe, nk, na)
	vassert("C18.K2.second_call_runs", err2 == nil && err3 == nil)
	vobs("survive", c1, c2, nk, na, got)
	vassert("C18.K2.next_call_sees_only_its_own_keys_and_arguments", got == want)
}
