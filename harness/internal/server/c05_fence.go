package server

import (
	"github.com/tidwall/gjson"
)

// C05: a static fence (channel) reports exactly the documented notifications for every transition,
// DETECT subset and COMMANDS filter; candidate selection never drops a fence that has something to say.
// Real SETCHAN / SET / FSET / DEL / DROP handlers, real FenceMatch and getQueueCandidates.

var vhDetNames = [5]string{"inside", "outside", "enter", "exit", "cross"}

// positions relative to the fence BOUNDS 0 0 10 10 (lat lon): two inside, four outside (W, E, N, S)
var vhPos = [6][2]string{{"5", "5"}, {"6", "4"}, {"5", "-5"}, {"5", "15"}, {"30", "5"}, {"-30", "5"}}
var vhPosInside = [6]bool{true, true, false, false, false, false}

// straight path between two outside positions crosses the area (W<->E and N<->S do)
func vhCrosses(a, b int) bool {
	return (a == 2 && b == 3) || (a == 3 && b == 2) || (a == 4 && b == 5) || (a == 5 && b == 4)
}

func vhHook(s *Server, name string) *Hook {
	h, _ := s.hooks.Get(&Hook{Name: name}).(*Hook)
	return h
}

// vhExpected is the documented notification list for one SET, filtered by the DETECT subset.
func vhExpected(in1, in2, cross bool, det [5]bool, all bool) []string {
	var base []string
	switch {
	case in1 && in2:
		base = []string{"inside"}
	case !in1 && in2:
		base = []string{"enter", "inside"}
	case in1 && !in2:
		base = []string{"exit", "outside"}
	case cross:
		base = []string{"cross", "outside"}
	default:
		base = []string{"outside"}
	}
	var out []string
	for _, d := range base {
		for i, n := range vhDetNames {
			if n == d && (all || det[i]) {
				out = append(out, d)
			}
		}
	}
	return out
}

func vhDetectsOf(msgs []string) []string {
	var out []string
	for _, m := range msgs {
		out = append(out, gjson.Get(m, "detect").String())
	}
	return out
}

func vhSameStrings(a, b []string) bool {
	if len(a) != len(b) {
		return false
	}
	for i := range a {
		if a[i] != b[i] {
			return false
		}
	}
	return true
}

func vhCandidate(s *Server, d *commandDetails, h *Hook) bool {
	for _, c := range s.getQueueCandidates(d) {
		if c == h {
			return true
		}
	}
	return false
}

// vhDelivered is what queueHooks hands to the hook's receivers for one change: the fence messages, provided
// the hook is among the candidates the index look-ups select.
func vhDelivered(s *Server, d *commandDetails, h *Hook) []string {
	if !vhCandidate(s, d, h) {
		return nil
	}
	return vhDetectsOf(FenceMatch(h.Name, h.ScanWriter, h.Fence, h.Metas, d))
}

//verif:cfg b_detect=all_32_subsets+default b_positions=6x6(2_inside,4_outside,crossing_W-E_and_N-S) b_fence=WITHIN|INTERSECTS_BOUNDS b_other_hooks=2(one_over_the_same_area_with_NOFIELDS,_evaluated_before_or_after) b_definition=first|redefined_from_another_area|redefined_from_another_DETECT_list b_delete=DEL|PDEL ignorego=1
func VH_C05_static_fence() {
	s := vhServer()
	// DETECT subset (32 = default, i.e. no DETECT clause)
	sub := vchoose(33)
	var det [5]bool
	all := sub == 32
	list := ""
	for i := 0; i < 5; i++ {
		if !all && sub&(1<<i) != 0 {
			det[i] = true
			if list != "" {
				list += ","
			}
			list += vhDetNames[i]
		}
	}
	if !all && list == "" {
		return // an empty DETECT list cannot be expressed
	}
	kind := [2]string{"WITHIN", "INTERSECTS"}[vchoose(2)]
	args := []string{"SETCHAN", "ch", kind, "fleet", "FENCE"}
	if !all {
		args = append(args, "DETECT", list)
	}
	args = append(args, "BOUNDS", "0", "0", "10", "10")
	// the fence may replace an earlier definition under the same name: it then behaves like a fresh one
	switch vchoose(3) {
	case 1:
		vhDo(s, "SETCHAN", "ch", kind, "fleet", "FENCE", "BOUNDS", "20", "20", "30", "30")
		vreach("redefined")
	case 2:
		vhDo(s, "SETCHAN", "ch", kind, "fleet", "FENCE", "DETECT", "inside,outside,cross", "BOUNDS", "0", "0", "10", "10")
		vreach("redefined")
	}
	_, _, err := vhDo(s, args...)
	vassert("C05.setchan_ok", err == nil)
	// a second fence over the same area that differs only in NOFIELDS: the same change is evaluated for both (in
	// either order), and each message follows its own fence's options
	qargs := []string{"SETCHAN", "quiet", kind, "fleet", "NOFIELDS", "FENCE"}
	if !all {
		qargs = append(qargs, "DETECT", list)
	}
	vhDo(s, append(qargs, "BOUNDS", "0", "0", "10", "10")...)
	hq := vhHook(s, "quiet")
	vassert("C05.quiet_hook_registered", hq != nil)
	// another fence elsewhere, so that the hook trees hold more than one entry
	vhDo(s, "SETCHAN", "other", "WITHIN", "fleet", "FENCE", "DETECT", "cross,enter", "BOUNDS", "40", "40", "50", "50")
	h := vhHook(s, "ch")
	vassert("C05.hook_registered", h != nil)

	p1, p2 := vchoose(6), vchoose(6)
	// first SET: no previous object
	_, d1, _ := vhDo(s, "SET", "fleet", "truck", "FIELD", "speed", "5", "POINT", vhPos[p1][0], vhPos[p1][1])
	m1 := FenceMatch(h.Name, h.ScanWriter, h.Fence, h.Metas, &d1)
	want1 := vhExpected(false, vhPosInside[p1], false, det, all)
	vassert("C05.first_set_notifications", vhSameStrings(vhDetectsOf(m1), want1))
	vassert("C05.first_set_delivered", vhSameStrings(vhDelivered(s, &d1, h), want1))
	if len(want1) > 0 {
		vassert("C05.first_set_candidate", vhCandidate(s, &d1, h))
	}
	// the move
	_, d2, _ := vhDo(s, "SET", "fleet", "truck", "FIELD", "speed", "7", "POINT", vhPos[p2][0], vhPos[p2][1])
	quietFirst := (sub+p1+p2)%2 == 0 // both evaluation orders occur across the explored combinations
	var mq []string
	if quietFirst {
		mq = FenceMatch(hq.Name, hq.ScanWriter, hq.Fence, hq.Metas, &d2)
	}
	m2 := FenceMatch(h.Name, h.ScanWriter, h.Fence, h.Metas, &d2)
	if !quietFirst {
		mq = FenceMatch(hq.Name, hq.ScanWriter, hq.Fence, hq.Metas, &d2)
	}
	for _, m := range mq {
		vassert("C05.nofields_fence_carries_no_fields", !gjson.Get(m, "fields").Exists() && gjson.Get(m, "hook").String() == "quiet" && gjson.Get(m, "id").String() == "truck")
	}
	vassert("C05.same_detection_for_both_fences", len(mq) == len(m2))
	want2 := vhExpected(vhPosInside[p1], vhPosInside[p2], vhCrosses(p1, p2), det, all)
	got2 := vhDetectsOf(m2)
	vobs("move", p1, p2, sub, len(got2))
	vassert("C05.move_notifications", vhSameStrings(got2, want2))
	vassert("C05.move_delivered", vhSameStrings(vhDelivered(s, &d2, h), want2))
	if len(want2) > 0 {
		vassert("C05.move_candidate_not_dropped", vhCandidate(s, &d2, h))
	}
	for _, m := range m2 {
		vassert("C05.payload_id_and_fields", gjson.Get(m, "id").String() == "truck" && gjson.Get(m, "fields.speed").Int() == 7 &&
			gjson.Get(m, "command").String() == "set" && gjson.Get(m, "key").String() == "fleet" && gjson.Get(m, "hook").String() == "ch")
		vassert("C05.payload_current_geometry", gjson.Get(m, "object.coordinates.0").String() == vhPos[p2][1] && gjson.Get(m, "object.coordinates.1").String() == vhPos[p2][0])
	}
	// FSET keeps the position
	_, d3, _ := vhDo(s, "FSET", "fleet", "truck", "speed", "9")
	m3 := FenceMatch(h.Name, h.ScanWriter, h.Fence, h.Metas, &d3)
	var want3 []string
	if vhPosInside[p2] {
		want3 = vhExpected(true, true, false, det, all)
	} else {
		want3 = vhExpected(false, false, false, det, all)
	}
	vassert("C05.fset_notifications", vhSameStrings(vhDetectsOf(m3), want3))
	for _, m := range m3 {
		vassert("C05.fset_payload_carries_new_fields_and_current_object", gjson.Get(m, "id").String() == "truck" && gjson.Get(m, "fields.speed").Int() == 9 &&
			gjson.Get(m, "command").String() == "fset" && gjson.Get(m, "object.coordinates.0").String() == vhPos[p2][1] && gjson.Get(m, "object.coordinates.1").String() == vhPos[p2][0])
	}
	vassert("C05.fset_delivered", vhSameStrings(vhDelivered(s, &d3, h), want3))
	if len(want3) > 0 {
		vassert("C05.fset_candidate_not_dropped", vhCandidate(s, &d3, h))
	}
	// DEL / PDEL: one del message
	var d4 commandDetails
	if vnondetBool() {
		_, d4, _ = vhDo(s, "DEL", "fleet", "truck")
	} else {
		_, dp, _ := vhDo(s, "PDEL", "fleet", "tr*")
		vassert("C05.pdel_one_child", dp.parent && len(dp.children) == 1)
		d4 = *dp.children[0]
	}
	m4 := FenceMatch(h.Name, h.ScanWriter, h.Fence, h.Metas, &d4)
	vassert("C05.del_message", len(m4) == 1 && gjson.Get(m4[0], "command").String() == "del" && gjson.Get(m4[0], "id").String() == "truck")
	if vhPosInside[p2] {
		vassert("C05.del_candidate_when_inside", vhCandidate(s, &d4, h))
	}
}

// VH_C05_drop_and_commands: DROP gives one drop message; COMMANDS filters by command name.
//verif:cfg b_commands_filter=set|del|set,del|none ignorego=1
func VH_C05_drop_and_commands() {
	s := vhServer()
	f := vchoose(4)
	args := []string{"SETCHAN", "ch", "WITHIN", "fleet", "FENCE"}
	acc := [4]string{"", "set", "del", "set,del"}[f]
	if acc != "" {
		args = append(args, "COMMANDS", acc)
	}
	args = append(args, "BOUNDS", "0", "0", "10", "10")
	vhDo(s, args...)
	h := vhHook(s, "ch")
	_, d1, _ := vhDo(s, "SET", "fleet", "truck", "POINT", "5", "5")
	m1 := FenceMatch(h.Name, h.ScanWriter, h.Fence, h.Metas, &d1)
	setOK := f == 0 || f == 1 || f == 3
	delOK := f == 0 || f == 2 || f == 3
	vassert("C05.commands_filter_set", (len(m1) > 0) == setOK)
	_, d2, _ := vhDo(s, "DEL", "fleet", "truck")
	m2 := FenceMatch(h.Name, h.ScanWriter, h.Fence, h.Metas, &d2)
	vassert("C05.commands_filter_del", (len(m2) > 0) == delOK)
	vhDo(s, "SET", "fleet", "truck", "POINT", "5", "5")
	_, d3, _ := vhDo(s, "DROP", "fleet")
	m3 := FenceMatch(h.Name, h.ScanWriter, h.Fence, h.Metas, &d3)
	vassert("C05.drop_message", (f != 0) || (len(m3) == 1 && gjson.Get(m3[0], "command").String() == "drop"))
	if f == 0 {
		vassert("C05.drop_candidate", vhCandidate(s, &d3, h))
	}
}

// VH_C05_nearby_fence: a NEARBY (circle) fence, point and rectangle objects: inside = the object touches the
// circle (a rectangle straddling the edge is inside), whatever other objects did before (an earlier
// outside->outside move of another object runs the 'cross' evaluation of the same fence).
var vhNearObjs = [][]string{
	{"POINT", "10.01", "10.01"},                        // inside
	{"POINT", "11", "11"},                              // outside
	{"BOUNDS", "10.03", "10.03", "10.12", "10.12"},     // straddles the edge of the 5 km circle: inside
	{"BOUNDS", "10", "10", "10.01", "10.01"},           // inside
	{"BOUNDS", "10.2", "10.2", "10.3", "10.3"},         // outside, same side as the outside point
}
var vhNearInside = []bool{true, false, true, true, false}

//verif:cfg b_fence=NEARBY_POINT_10_10_5000m b_objects=point|rectangle_x_inside|outside|straddling b_moves=5x5 b_before=nothing|another_object_moved_outside_to_outside b_receivers=channel_(as_delivered_by_queueHooks) ignorego=1
func VH_C05_nearby_fence() {
	s := vhServer()
	_, _, err := vhDo(s, "SETCHAN", "ch", "NEARBY", "fleet", "FENCE", "POINT", "10", "10", "5000")
	vassert("C05.N.setchan_ok", err == nil)
	h := vhHook(s, "ch")
	if vnondetBool() {
		_, d0, _ := vhDo(s, "SET", "fleet", "car", "POINT", "0", "0")
		vhDelivered(s, &d0, h)
		_, d1, _ := vhDo(s, "SET", "fleet", "car", "POINT", "0.1", "0.1")
		got := vhDelivered(s, &d1, h)
		vassert("C05.N.far_move_is_outside", vhSameStrings(got, []string{"outside"}))
		vreach("other-object-moved")
	}
	p1, p2 := vchoose(len(vhNearObjs)), vchoose(len(vhNearObjs))
	_, d2, _ := vhDo(s, append([]string{"SET", "fleet", "truck"}, vhNearObjs[p1]...)...)
	var all [5]bool
	vassert("C05.N.first_set_delivered", vhSameStrings(vhDelivered(s, &d2, h), vhExpected(false, vhNearInside[p1], false, all, true)))
	_, d3, _ := vhDo(s, append([]string{"SET", "fleet", "truck"}, vhNearObjs[p2]...)...)
	vassert("C05.N.move_delivered", vhSameStrings(vhDelivered(s, &d3, h), vhExpected(vhNearInside[p1], vhNearInside[p2], false, all, true)))
	_, d4, _ := vhDo(s, "FSET", "fleet", "truck", "speed", "9")
	vassert("C05.N.fset_delivered", vhSameStrings(vhDelivered(s, &d4, h), vhExpected(vhNearInside[p2], vhNearInside[p2], false, all, true)))
	vobs("nearbyfence", p1, p2)
}

// VH_C05_shapes_sequence: points and rectangles (inside, straddling the edge, outside) in sequences of three SETs of
// one object against a WITHIN or an INTERSECTS fence. WITHIN and INTERSECTS differ exactly on the straddling
// rectangle, and keep differing whatever was evaluated before (the 'cross' test of an earlier outside->outside
// move temporarily evaluates a WITHIN fence as INTERSECTS). 'cross' = both positions outside and the segment
// between the two objects' centres meets the area.
//   x = lon, y = lat; area = BOUNDS 0 0 10 10
var vhShapes = [][]string{
	{"POINT", "5", "5"},                  // 0 point inside, centre (5,5)
	{"POINT", "5", "-5"},                 // 1 point west, centre (-5,5)
	{"POINT", "30", "30"},                // 2 point far north-east, centre (30,30)
	{"BOUNDS", "2", "2", "8", "8"},       // 3 rectangle inside, centre (5,5)
	{"BOUNDS", "5", "5", "20", "20"},     // 4 rectangle straddling the north-east corner, centre (12.5,12.5)
	{"BOUNDS", "20", "20", "30", "30"},   // 5 rectangle outside, centre (25,25)
	{"POINT", "5", "15"},                 // 6 point east, centre (15,5)
	// two triangles that split one box (8..20 in both axes) along its diagonal: the same bounding rectangle, the
	// first lies beyond the area's corner, the second reaches into the area
	{"OBJECT", `{"type":"Polygon","coordinates":[[[20,8],[20,20],[8,20],[20,8]]]}`}, // 7 far triangle, centre (14,14)
	{"OBJECT", `{"type":"Polygon","coordinates":[[[8,8],[20,8],[8,20],[8,8]]]}`},    // 8 near triangle, centre (14,14)
}

// inside by fence kind (0 = WITHIN, 1 = INTERSECTS)
var vhShapeInside = [2][9]bool{
	{true, false, false, true, false, false, false, false, false},
	{true, false, false, true, true, false, false, false, true},
}

// the segment between the centres of shapes a and b meets the area (computed by hand, see the table above)
func vhShapesCross(a, b int) bool {
	if a > b {
		a, b = b, a
	}
	switch {
	case a == 1 && (b == 2 || b == 4 || b == 5 || b == 6 || b == 7 || b == 8):
		return true // from the west point every path to the east side passes through the area
	}
	return false
}

//verif:cfg b_fence=WITHIN|INTERSECTS_BOUNDS_0_0_10_10 b_detect=default|inside,outside|enter,exit,cross b_objects=9_(points,_rectangles_and_two_triangles_sharing_one_bounding_box:_inside,_straddling,_outside) b_sequence=3_SETs_of_one_object b_filter=none|MATCH_t*|WHERE_speed_0_10_(object_has_speed_5) ignorego=1
func VH_C05_shapes_sequence() {
	s := vhServer()
	k := vchoose(2)
	kind := [2]string{"WITHIN", "INTERSECTS"}[k]
	dsel := vchoose(3)
	var det [5]bool
	all := dsel == 0
	args := []string{"SETCHAN", "ch", kind, "fleet"}
	filter := vchoose(3)
	switch filter {
	case 1:
		args = append(args, "MATCH", "t*")
	case 2:
		args = append(args, "WHERE", "speed", "0", "10")
	}
	args = append(args, "FENCE")
	switch dsel {
	case 1:
		args = append(args, "DETECT", "inside,outside")
		det[0], det[1] = true, true
	case 2:
		args = append(args, "DETECT", "enter,exit,cross")
		det[2], det[3], det[4] = true, true, true
	}
	args = append(args, "BOUNDS", "0", "0", "10", "10")
	_, _, err := vhDo(s, args...)
	vassert("C05.S.setchan_ok", err == nil)
	h := vhHook(s, "ch")
	vassert("C05.S.hook_registered", h != nil)
	prev, prevIn := -1, false
	for step := 0; step < 3; step++ {
		p := vchoose(len(vhShapes))
		_, d, err := vhDo(s, append([]string{"SET", "fleet", "truck", "FIELD", "speed", "5"}, vhShapes[p]...)...)
		vassert("C05.S.set_ok", err == nil)
		in := vhShapeInside[k][p]
		cross := prev >= 0 && !prevIn && !in && vhShapesCross(prev, p)
		want := vhExpected(prevIn, in, cross, det, all)
		got := vhDelivered(s, &d, h)
		vobs("shape", k, dsel, filter, step, prev, p, len(got))
		vassert("C05.S.notifications_follow_the_fence_kind_at_every_step", vhSameStrings(got, want))
		prev, prevIn = p, in
	}
	// an object whose id does not match the fence's MATCH pattern is never reported
	if filter == 1 {
		_, d, _ := vhDo(s, "SET", "fleet", "car", "POINT", "5", "5")
		vassert("C05.S.match_filter_excludes_other_ids", len(vhDelivered(s, &d, h)) == 0)
	}
}
