package server

import "os"

// vhFollower (engine): a follower whose memory still holds what it replayed from its F-byte log: the marker
// collection "old" stands for that data; the modelled loadAOF replaces it by "loaded".
func vhFollower(F, L, P, Q int64) *Server {
	s := vhServer()
	s.mu = &vhLock{s: s, noSnap: true}
	s.aof = new(os.File)
	s.aofsz = int(F)
	if F > 0 {
		vhDo(s, "SET", "old", "x", "STRING", "x")
	}
	vh06.addr = "leader:9851"
	return s
}

func vhFollowerDone(s *Server) {}

func vhKeptIsLeaderPrefix(s *Server, pos int64) bool { return pos <= vh06.P }
func vhFollowerFileLen(s *Server) int64              { return vh06.fileLen }

// memory is the replay of the kept bytes: either it was reloaded from exactly pos bytes, or nothing was
// discarded and the old data is still what the file holds, or the file is empty and so is memory
func vhMemoryIsReplayOf(s *Server, pos int64) bool {
	_, old := s.cols.Get("old")
	_, loaded := s.cols.Get("loaded")
	switch {
	case loaded:
		return !old && vh06.loaded == pos
	case old:
		return pos == vh06.F
	}
	return pos == 0
}
