package server

import (
	"bytes"
	"io"
	"net"
	"sync"

	"github.com/tidwall/btree"
	"github.com/tidwall/resp"
	"github.com/tidwall/rtree"
	"github.com/tidwall/tile38/internal/collection"
)

// vhServer builds the in-memory server the way Serve does, without listeners, files, Lua pool or
// background goroutines. Used by the engine and by the native replay alike.
func vhServer() *Server {
	s := &Server{
		follows:      make(map[*bytes.Buffer]bool),
		fcond:        sync.NewCond(&sync.Mutex{}),
		lives:        make(map[*liveBuffer]bool),
		lcond:        sync.NewCond(&sync.Mutex{}),
		hooks:        btree.NewNonConcurrent(byHookName),
		hooksOut:     btree.NewNonConcurrent(byHookName),
		hookCross:    &rtree.RTree{},
		hookTree:     &rtree.RTree{},
		aofconnM:     make(map[net.Conn]io.Closer),
		conns:        make(map[int]*Client),
		groupHooks:   btree.NewNonConcurrent(byGroupHook),
		groupObjects: btree.NewNonConcurrent(byGroupObject),
		hookExpires:  btree.NewNonConcurrent(byHookExpires),
		cols:         &btree.Map[string, *collection.Collection]{},
		mu:           &rwmutex{},
	}
	s.config = &Config{}
	s.pubq = pubQueue{cond: sync.NewCond(&sync.Mutex{})}
	s.monconns = make(map[net.Conn]bool)
	return s
}

// vhDo runs one command the way handleInputCommand's dispatcher does, in RESP output mode.
func vhDo(s *Server, args ...string) (resp.Value, commandDetails, error) {
	msg := &Message{Args: args, ConnType: RESP, OutputType: RESP}
	return s.command(msg, nil)
}

func vhDoJSON(s *Server, args ...string) (resp.Value, commandDetails, error) {
	msg := &Message{Args: args, ConnType: RESP, OutputType: JSON}
	return s.command(msg, nil)
}
