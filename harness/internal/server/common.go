package server

import (
	"bytes"
	"io"
	"net"
	"os"
	"sync"

	"github.com/tidwall/btree"
	"github.com/tidwall/buntdb"
	"github.com/tidwall/resp"
	"github.com/tidwall/rtree"
	"github.com/tidwall/tile38/internal/collection"
	"github.com/tidwall/tile38/internal/endpoint"
)

// vhServer builds the in-memory server the way Serve does, without listeners, files, Lua pool or
// background goroutines. Used by the engine and by the native replay alike.
func vhServer() *Server {
	s := &Server{
		follows:      make(map[*bytes.Buffer]bool),
		fcond:        sync.NewCond(&sync.Mutex{}),
		lives:        make(map[*liveBuffer]bool),
		lcond:        sync.NewCond(&sync.Mutex{}),
		hooks:        btree.NewNonConcurrent(byHookName),
		hooksOut:     btree.NewNonConcurrent(byHookName),
		hookCross:    &rtree.RTree{},
		hookTree:     &rtree.RTree{},
		aofconnM:     make(map[net.Conn]io.Closer),
		conns:        make(map[int]*Client),
		groupHooks:   btree.NewNonConcurrent(byGroupHook),
		groupObjects: btree.NewNonConcurrent(byGroupObject),
		hookExpires:  btree.NewNonConcurrent(byHookExpires),
		cols:         &btree.Map[string, *collection.Collection]{},
		mu:           &rwmutex{},
	}
	s.config = &Config{}
	if vnative() {
		// webhooks start their manager goroutine natively (go statements are ignored in the engine)
		s.epc = endpoint.NewManager(s)
		// READONLY / CONFIG REWRITE write the configuration file (a no-op stub in the engine)
		s.config.path = os.TempDir() + "/verif-tile38-config"
	}
	s.epool = newExprPool(s)
	s.pubq = pubQueue{cond: sync.NewCond(&sync.Mutex{})}
	s.monconns = make(map[net.Conn]bool)
	s.pubsub = newPubsub()
	// webhook queue: the real buntdb, in memory
	s.qdb, _ = buntdb.Open(":memory:")
	s.qdb.CreateIndex("hooks", hookLogPrefix+"*", buntdb.IndexJSONCaseSensitive("hook"))
	return s
}

// vhDo runs one command the way handleInputCommand's dispatcher does, in RESP output mode.
func vhDo(s *Server, args ...string) (resp.Value, commandDetails, error) {
	msg := &Message{Args: args, ConnType: RESP, OutputType: RESP}
	return s.command(msg, nil)
}

func vhDoJSON(s *Server, args ...string) (resp.Value, commandDetails, error) {
	msg := &Message{Args: args, ConnType: RESP, OutputType: JSON}
	return s.command(msg, nil)
}

// bsonID mixes the process id, host name and a random counter start into object ids (all read in
// package initialisers from the OS). The engine and the replay use a deterministic counter instead.
//verif:replace github.com/tidwall/tile38/internal/server.bsonID => vmBsonID

var vmBsonCounter int

func vmBsonID() string {
	vmBsonCounter++
	const hexd = "0123456789abcdef"
	b := []byte("0000000000000000000000000")[:24]
	n := vmBsonCounter
	for i := 23; i >= 16; i-- {
		b[i] = hexd[n&15]
		n >>= 4
	}
	return string(b)
}

// the configuration file is not part of any harness
//verif:noop (*github.com/tidwall/tile38/internal/server.Config).write

// vhDeadline: the deadline of an object (0 = none) and whether the object exists
func vhDeadline(s *Server, key, id string) (int64, bool) {
	col, _ := s.cols.Get(key)
	if col == nil {
		return 0, false
	}
	o := col.Get(id)
	if o == nil {
		return 0, false
	}
	return o.Expires(), true
}

