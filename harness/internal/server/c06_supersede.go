package server

import (
	"strconv"
	"strings"
)

// C06-K4: a follow routine that has been superseded - a client issued FOLLOW (another leader, or no one) while the
// routine was in the middle of its connection handshake - must stop without touching the log or the dataset: by
// then they belong to the new routine (which may already have synchronised with its leader). The REAL followStep
// and the REAL followCheckSome run; the stub leader answers the handshake, and the FOLLOW arrives while the
// routine waits for the leader's SERVER reply. The follower's log is shorter than a checksum window, or unrelated
// to the leader's, or an intact prefix: the first two make an active routine discard log and dataset.
//
// This file does not mention followCheckSome by name: it keeps compiling when that function's signature changes.

//verif:cfg use=c06s,c06 b_follower_log=one_command_(shorter_than_a_window)|2_windows_unrelated_to_the_leader's|2_windows_intact_prefix b_superseded=while_waiting_for_the_SERVER_reply|never b_session_ends_at=REPLCONF ignorego=1
func VH_C06_superseded_routine() {
	const W = 512 * 1024
	var F, L, P int64
	switch vchoose(3) {
	case 0:
		F, L, P = vhCmdLen, 4*W, vhCmdLen
	case 1:
		F, L, P = 2*W, 2*W, 51
	default:
		F, L, P = 2*W, 4*W, 2*W
	}
	Q := F
	if L < Q {
		Q = L
	}
	vh06.F, vh06.L, vh06.P, vh06.Q = F, L, P, Q
	vh06.fileLen, vh06.loaded = F, 0
	s := vhFollower(F, L, P, Q)
	host, port := "leader", 9851
	if i := strings.LastIndexByte(vh06.addr, ':'); i > 0 {
		host = vh06.addr[:i]
		port, _ = strconv.Atoi(vh06.addr[i+1:])
	}
	s.config._followHost, s.config._followPort = host, int64(port)
	superseded := vnondetBool()
	vh06b.active, vh06b.s, vh06b.cmds, vh06b.have, vh06b.sent = true, s, nil, 0, 0
	vh06b.violated, vh06b.observed, vh06b.stage = false, 0, -1
	vh06b.leaderLen = int(L)
	vh06b.failAt = 3 // the session ends at REPLCONF
	vh06b.realCheckSome = true
	vh06b.supersedeAt, vh06b.onSupersede = -1, nil
	if superseded {
		vh06b.supersedeAt = 1
		vh06b.onSupersede = func() { s.followc.Add(1) } // what cmdFollow does before it starts the new routine
	}
	err := s.followStep(host, port, 0)
	vh06b.active, vh06b.realCheckSome = false, false
	untouched := vhFollowerFileLen(s) == F && int64(s.aofsz) == F && vhMemoryIsReplayOf(s, F)
	vobs("supersede", F, superseded, err != nil, untouched)
	if superseded {
		vassert("C06.K4.superseded_routine_stops", err != nil)
		vassert("C06.K4.superseded_routine_touches_neither_log_nor_dataset", untouched)
	} else {
		vreach("active-routine")
		vassert("C06.K4.active_routine_keeps_exactly_an_intact_prefix", untouched == (P == F && F >= W))
	}
	vhFollowerDone(s)
}
