package server

import (
	"math"

	"github.com/tidwall/gjson"
)

// C20: a roaming fence reports 'nearby' for exactly the other pattern-matching objects within the radius
// of the new position (minus, under NODWELL, those already within the radius of the previous one) and
// 'faraway' for exactly those that were within the radius before and are not now; metres are the true
// distance between the two objects. Real SETCHAN/SET handlers, real FenceMatch.

// me moves between A, B, C; neighbours n1 (445 m from A), n2 (inside A's bounding square, 1.2 km away,
// i.e. outside the circle), n3 (near C only). Radius 1000 m.
// D is 1334 m north of A (further than the radius, closer than twice the radius); n4 lies between them,
// inside the radius of both; x1 is next to A but never matches the "n*"-style patterns.
var vhRoamMe = [4][2]string{{"33.000", "-115.000"}, {"33.006", "-115.006"}, {"33.046", "-115.000"}, {"33.012", "-115.000"}}
var vhRoamN = [4][2]string{{"33.004", "-115.000"}, {"33.008", "-115.009"}, {"33.050", "-115.000"}, {"33.006", "-115.000"}}
var vhRoamIDs = [4]string{"n1", "n2", "n3", "n4"}

func vhDist(s *Server, a, b string) float64 {
	col, _ := s.cols.Get("fleet")
	return col.Get(a).Geo().Distance(col.Get(b).Geo())
}

func vhPatMatch(pat int, id string) bool {
	switch pat {
	case 0:
		return true // *
	case 1:
		return id == "n2" // exact id
	case 2:
		return id == "n1" || id == "n2" // n[12]
	}
	return true // n*: everything but x1
}

//verif:cfg b_positions=4_positions,_every_sequence_of_2_consecutive_moves(one_move_longer_than_the_radius_and_shorter_than_twice_it) b_neighbours=4(one_inside_the_bounding_square_but_outside_the_circle,one_within_the_radius_of_two_positions)+1_not_matching_the_pattern+1_long_LineString_(an_end_near,_the_centre_far) b_pattern=*|exact|n[12]|n* b_nodwell=both b_collection=created_after_the_fence|exists_before_it|exists_before_it_and_is_emptied_(DROP_or_DEL_of_every_object)_and_created_again ignorego=1
func VH_C20_roam() {
	s := vhServer()
	pat := vchoose(4)
	nodwell := vnondetBool()
	args := []string{"SETCHAN", "roamch", "NEARBY", "fleet", "FENCE"}
	if nodwell {
		args = append(args, "NODWELL")
	}
	args = append(args, "ROAM", "fleet", [4]string{"*", "n2", "n[12]", "n*"}[pat], "1000")
	// the fenced collection may exist before the fence does, and may be dropped and created again afterwards: the
	// fence always looks at the collection that currently carries the name
	hist := vchoose(3)
	if hist > 0 {
		vhDo(s, "SET", "fleet", "zfar", "POINT", "40", "-100")
		vhDo(s, "SET", "fleet", "n1", "POINT", "40.001", "-100") // an earlier life of a neighbour, far away
	}
	_, _, err := vhDo(s, args...)
	vassert("C20.setchan_ok", err == nil)
	h := vhHook(s, "roamch")
	if hist == 2 {
		if vnondetBool() {
			vhDo(s, "DROP", "fleet")
		} else {
			vhDo(s, "DEL", "fleet", "zfar")
			vhDo(s, "DEL", "fleet", "n1")
		}
		vreach("collection-recreated")
	}
	for i, id := range vhRoamIDs {
		vhDo(s, "SET", "fleet", id, "POINT", vhRoamN[i][0], vhRoamN[i][1])
	}
	vhDo(s, "SET", "fleet", "x1", "POINT", "33.001", "-115.000")
	// a neighbour that is not a point: a 9 km line whose southern end is 55 m from A while its centre is 4.6 km
	// away - distance between objects is centre to centre, so it is never within 1000 m of any position
	vhDo(s, "SET", "fleet", "nroad", "OBJECT", `{"type":"LineString","coordinates":[[-115.0,33.0005],[-115.0,33.084]]}`)
	pos := vchoose(4)
	vhDo(s, "SET", "fleet", "me", "POINT", vhRoamMe[pos][0], vhRoamMe[pos][1])
	for move := 0; move < 2; move++ {
		var dOld [4]float64
		for i, id := range vhRoamIDs {
			dOld[i] = vhDist(s, "me", id)
		}
		xOld := vhDist(s, "me", "x1")
		roadOld := vhDist(s, "me", "nroad")
		pos = vchoose(4)
		_, d, _ := vhDo(s, "SET", "fleet", "me", "POINT", vhRoamMe[pos][0], vhRoamMe[pos][1])
		msgs := FenceMatch(h.Name, h.ScanWriter, h.Fence, h.Metas, &d)

		var nearSeen, farSeen [4]int
		xSeen := 0
		metersOK := true
		for _, m := range msgs {
			if gjson.Get(m, "nearby.id").String() == "x1" || gjson.Get(m, "faraway.id").String() == "x1" {
				xSeen++
			}
			for i, id := range vhRoamIDs {
				dn := vhDist(s, "me", id)
				if gjson.Get(m, "nearby.id").String() == id {
					nearSeen[i]++
					metersOK = metersOK && math.Abs(gjson.Get(m, "nearby.meters").Float()-dn) < 0.002
				}
				if gjson.Get(m, "faraway.id").String() == id {
					farSeen[i]++
					metersOK = metersOK && math.Abs(gjson.Get(m, "faraway.meters").Float()-dn) < 0.002
				}
			}
		}
		for i, id := range vhRoamIDs {
			dn := vhDist(s, "me", id)
			was, is := dOld[i] <= 1000, dn <= 1000
			wantNear := vhPatMatch(pat, id) && is && !(nodwell && was)
			wantFar := vhPatMatch(pat, id) && was && !is
			vassert("C20.nearby_exact", nearSeen[i] == vhB2I(wantNear))
			vassert("C20.faraway_exact", farSeen[i] == vhB2I(wantFar))
		}
		{
			dn := vhDist(s, "me", "x1")
			was, is := xOld <= 1000, dn <= 1000
			want := 0
			if pat == 0 {
				want = vhB2I(is && !(nodwell && was)) + vhB2I(was && !is)
			}
			vassert("C20.pattern_filters_neighbours", xSeen == want)
		}
		{
			// the extended neighbour is reported by the same rule (distance between the objects against the radius)
			dn := vhDist(s, "me", "nroad")
			was, is := roadOld <= 1000, dn <= 1000
			want := 0
			if pat == 0 || pat == 3 {
				want = vhB2I(is && !(nodwell && was)) + vhB2I(was && !is)
			}
			seen := 0
			for _, m := range msgs {
				if gjson.Get(m, "nearby.id").String() == "nroad" || gjson.Get(m, "faraway.id").String() == "nroad" {
					seen++
				}
			}
			vassert("C20.extended_neighbour_by_object_distance", seen == want)
		}
		vassert("C20.meters_true_distance", metersOK)
		vobs("roam", move, pos, pat, nodwell, len(msgs))
	}
}

func vhB2I(b bool) int {
	if b {
		return 1
	}
	return 0
}
