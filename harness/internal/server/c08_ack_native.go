package server

import (
	"errors"
	"net"
	"os"
	"sync"
	"time"
)

// Native replay of C08: the real netServe accept loop runs on a fake listener that hands out the harness
// connections in schedule order; server.go / aof.go are compiled from copies in which net.Listen and the
// dirty-flag atomics go through the wrappers below (native_patch.json), so that every visible operation
// passes the schedule gate.

type vhListener struct {
	conns  []*vhConn
	next   int
	closed chan struct{}
}

func (l *vhListener) Accept() (net.Conn, error) {
	if l.next < len(l.conns) {
		c := l.conns[l.next]
		l.next++
		vgateAs(c.id, "start")
		return c, nil
	}
	<-l.closed
	return nil, errors.New("listener closed")
}
func (l *vhListener) Close() error {
	select {
	case <-l.closed:
	default:
		close(l.closed)
	}
	return nil
}
func (l *vhListener) Addr() net.Addr { return vhAddr{} }

var vhTheListener *vhListener

func vhListen(network, addr string) (net.Listener, error) { return vhTheListener, nil }

func vhDirtyLoad(s *Server) bool {
	vgate("Load")
	return s.aofdirty.Load()
}

func vhDirtyStore(s *Server, v bool) {
	vgate("Store")
	s.aofdirty.Store(v)
}

func vhDirtyCAS(s *Server, old, new bool) bool {
	vgate("CompareAndSwap")
	return s.aofdirty.CompareAndSwap(old, new)
}

func vhDirtySwap(s *Server, v bool) bool {
	vgate("Swap")
	return s.aofdirty.Swap(v)
}

func vhNativeServe(s *Server, conns []*vhConn) {
	// hand the connections out in the order in which the schedule starts their threads
	var ordered []*vhConn
	for _, id := range vScheduleStarts() {
		for _, c := range conns {
			if c.id == id {
				ordered = append(ordered, c)
			}
		}
	}
	for _, c := range conns {
		found := false
		for _, o := range ordered {
			if o == c {
				found = true
			}
		}
		if !found {
			ordered = append(ordered, c)
		}
	}
	vhTheListener = &vhListener{conns: ordered, closed: make(chan struct{})}
	var fwg sync.WaitGroup
	if vhFlusher {
		// the real background flusher as one more scheduled thread (its first pass runs at once; it gives the
		// token back whenever it goes to sleep)
		fwg.Add(1)
		fid := len(conns)
		go func() {
			vregisterThread(fid)
			vgateAs(fid, "start")
			s.backgroundSyncAOF(&fwg)
			vthreadEnd()
		}()
	}
	done := make(chan struct{})
	go func() {
		s.netServe()
		close(done)
	}()
	deadline := time.Now().Add(30 * time.Second)
	for {
		all := true
		for _, c := range conns {
			if !c.closed {
				all = false
			}
		}
		if all || time.Now().After(deadline) {
			break
		}
		time.Sleep(2 * time.Millisecond)
	}
	s.stopServer.Store(true)
	vhTheListener.Close()
	<-done
	fwg.Wait()
	name := s.aof.Name()
	s.aof.Close()
	os.Remove(name)
}

func vhReadyLoad(s *Server) bool {
	vgate("Load")
	return s.loadedAndReady.Load()
}

// spin lock atomics behind the schedule gate (native replay of VH_C07_spinlock_*)
func vhSpinLoad(l *rwspinlock) int32 {
	vgate("Load")
	return l.state.Load()
}
func vhSpinCAS(l *rwspinlock, old, new int32) bool {
	vgate("CompareAndSwap")
	return l.state.CompareAndSwap(old, new)
}
func vhSpinAdd(l *rwspinlock, d int32) int32 {
	vgate("Add")
	return l.state.Add(d)
}
func vhSpinGosched() { vwait() }

// the flusher's loop sleeps between passes: the scheduled thread has no further operation until it wakes up
func vhLoopSleep(d time.Duration) {
	vthreadEnd()
	time.Sleep(d)
}

