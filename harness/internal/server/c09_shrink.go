package server

import (
	"io"
	"os"
	"strings"
)

// C09: AOFSHRINK rewrites the log so that a restart on it gives exactly the live dataset, also when
// writes are acknowledged while the rewrite is running, and for datasets larger than one scan batch.
// Real aofshrink(), real writeAOF / handlers / loadAOF; the file system is a directory model in the engine
// and a real temporary directory in the native replay.

// ---- directory model (engine) ------------------------------------------------------------------------

//verif:replace[dirmodel] os.Create => vmDirCreate
//verif:replace[dirmodel] os.OpenFile => vmDirOpenFile
//verif:replace[dirmodel] os.Rename => vmDirRename
//verif:replace[dirmodel] os.Remove => vmDirRemove
//verif:replace[dirmodel] os.Stat => vmDirStatName
//verif:replace[dirmodel] (*os.File).Write => vmDirWrite
//verif:replace[dirmodel] (*os.File).Read => vmDirRead
//verif:replace[dirmodel] (*os.File).Sync => vmDirSync
//verif:replace[dirmodel] (*os.File).Close => vmDirClose
//verif:replace[dirmodel] (*os.File).Seek => vmDirSeek
//verif:replace[dirmodel] (*os.File).Stat => vmDirStat
//verif:replace[dirmodel] (*os.File).Truncate => vmDirTruncate

type vmInode struct {
	data   []byte
	synced int // bytes known to be on disk
}

type vmHandle struct {
	ino    *vmInode
	pos    int
	closed bool
}

type vmDirT struct {
	names   map[string]*vmInode
	handles map[*os.File]*vmHandle
	ops     int // completed file-system operations (crash points are numbered by this)
	crashAt int // crash instead of performing operation number crashAt (-1: never)
	crashed bool
	trace   string
}

var vmDir vmDirT

type vhCrash struct{}

func vmDirReset() {
	vmDir = vmDirT{names: map[string]*vmInode{}, handles: map[*os.File]*vmHandle{}, crashAt: -1}
}

// vhOsTick numbers the directory operations (os.Create/OpenFile/Rename/Remove); the process "crashes"
// instead of performing operation number crashAt. After the crash the directory is frozen.
func vhOsTick(what string) bool {
	if vmDir.crashed {
		return false
	}
	if vmDir.ops == vmDir.crashAt {
		vmDir.crashed = true
		panic(vhCrash{})
	}
	vmDir.ops++
	vmDir.trace += what + ";"
	return true
}

func vmDirTick(what string) {}

func vmDirOpen(ino *vmInode) *os.File {
	f := new(os.File)
	vmDir.handles[f] = &vmHandle{ino: ino}
	return f
}

func vmDirCreate(name string) (*os.File, error) {
	if !vhOsTick("create " + vhBase(name)) {
		return nil, os.ErrClosed
	}
	ino := &vmInode{}
	vmDir.names[name] = ino
	return vmDirOpen(ino), nil
}

func vmDirOpenFile(name string, flag int, perm os.FileMode) (*os.File, error) {
	if !vhOsTick("open " + vhBase(name)) {
		return nil, os.ErrClosed
	}
	ino, ok := vmDir.names[name]
	if !ok {
		if flag&os.O_CREATE == 0 {
			return nil, os.ErrNotExist
		}
		ino = &vmInode{}
		vmDir.names[name] = ino
	}
	return vmDirOpen(ino), nil
}

func vmDirRename(from, to string) error {
	if !vhOsTick("rename " + vhBase(from) + " " + vhBase(to)) {
		return os.ErrClosed
	}
	ino, ok := vmDir.names[from]
	if !ok {
		return os.ErrNotExist
	}
	delete(vmDir.names, from)
	vmDir.names[to] = ino
	return nil
}

func vmDirRemove(name string) error {
	if !vhOsTick("remove " + vhBase(name)) {
		return os.ErrClosed
	}
	if _, ok := vmDir.names[name]; !ok {
		return os.ErrNotExist
	}
	delete(vmDir.names, name)
	return nil
}

func vmDirStatName(name string) (os.FileInfo, error) {
	ino, ok := vmDir.names[name]
	if !ok {
		return nil, os.ErrNotExist
	}
	return vmFileInfo{int64(len(ino.data))}, nil
}

func vmDirWrite(f *os.File, p []byte) (int, error) {
	h := vmDir.handles[f]
	if h == nil || h.closed {
		return 0, os.ErrClosed
	}
	vmDirTick("write")
	for len(h.ino.data) < h.pos {
		h.ino.data = append(h.ino.data, 0)
	}
	h.ino.data = append(h.ino.data[:h.pos], p...)
	h.pos += len(p)
	return len(p), nil
}

func vmDirRead(f *os.File, p []byte) (int, error) {
	h := vmDir.handles[f]
	if h == nil || h.closed {
		return 0, os.ErrClosed
	}
	if h.pos >= len(h.ino.data) {
		return 0, io.EOF
	}
	n := copy(p, h.ino.data[h.pos:])
	h.pos += n
	return n, nil
}

func vmDirSync(f *os.File) error {
	h := vmDir.handles[f]
	if h == nil || h.closed {
		return os.ErrClosed
	}
	vmDirTick("sync")
	h.ino.synced = len(h.ino.data)
	return nil
}

func vmDirClose(f *os.File) error {
	h := vmDir.handles[f]
	if h == nil || h.closed {
		return os.ErrClosed
	}
	vmDirTick("close")
	h.closed = true
	return nil
}

func vmDirSeek(f *os.File, off int64, whence int) (int64, error) {
	h := vmDir.handles[f]
	if h == nil || h.closed {
		return 0, os.ErrClosed
	}
	np := h.pos
	switch whence {
	case 0:
		np = int(off)
	case 1:
		np += int(off)
	case 2:
		np = len(h.ino.data) + int(off)
	}
	if np < 0 {
		return 0, os.ErrInvalid
	}
	h.pos = np
	return int64(np), nil
}

func vmDirStat(f *os.File) (os.FileInfo, error) {
	h := vmDir.handles[f]
	if h == nil || h.closed {
		return nil, os.ErrClosed
	}
	return vmFileInfo{int64(len(h.ino.data))}, nil
}

func vmDirTruncate(f *os.File, size int64) error {
	h := vmDir.handles[f]
	if h == nil || h.closed {
		return os.ErrClosed
	}
	if int(size) <= len(h.ino.data) {
		h.ino.data = h.ino.data[:size]
	}
	return nil
}

func vhBase(name string) string {
	if i := strings.LastIndexByte(name, '/'); i >= 0 {
		return name[i+1:]
	}
	return name
}

// ---- harness helpers (engine and native) ------------------------------------------------------------

var vhTmpDir string

func vhShrinkServer() (*Server, *vhLock) {
	s := vhServer()
	lk := &vhLock{s: s, noSnap: true}
	s.mu = lk
	s.loadedAndReady.Store(true)
	vmDirReset()
	if vnative() {
		d, err := os.MkdirTemp("", "verif-shrink-*")
		if err != nil {
			panic(err)
		}
		vhTmpDir = d
		s.opts.AppendFileName = d + "/appendonly.aof"
	} else {
		s.opts.AppendFileName = "/data/appendonly.aof"
	}
	f, err := os.OpenFile(s.opts.AppendFileName, os.O_CREATE|os.O_RDWR, 0600)
	if err != nil {
		panic(err)
	}
	s.aof = f
	return s, lk
}

// vhWriteCmd runs a write command the way a client connection would (handler, then writeAOF) and flushes.
func vhWriteCmd(s *Server, args ...string) {
	client := &Client{}
	msg := &Message{Args: args, ConnType: RESP, OutputType: RESP}
	if err := s.handleInputCommand(client, msg); err != nil {
		panic(err)
	}
	s.flushAOF(false)
}

// vhRestartOn starts a fresh server on the data directory the way Serve does (openAppendFile, loadAOF)
// and returns its snapshot.
func vhRestartOn(name string) (string, error) {
	s2 := vhServer()
	f, err := openAppendFile(name)
	if err != nil {
		return "", err
	}
	s2.aof = f
	if err := s2.loadAOF(); err != nil {
		return "", err
	}
	snap := vhSnapshot(s2)
	f.Close()
	return snap, nil
}

func vhCleanupShrink() {
	if vnative() && vhTmpDir != "" {
		os.RemoveAll(vhTmpDir)
	}
}

// snapshots compare deadlines only by presence: the rewrite stores a remaining TTL rounded to 0.1 s
func vhSameData(a, b string) bool { return a == b }

// VH_C09_batches: more collections / objects than one scan batch (constants 8 and 32 in the code), no interference.
//verif:cfg use=dirmodel b_collections=1,2,9 b_objects_in_first=3,33,40 ignorego=1 maxsteps=40000000
func VH_C09_batches() {
	s, _ := vhShrinkServer()
	ncols := [3]int{1, 2, 9}[vchoose(3)]
	nobj := [3]int{3, 33, 40}[vchoose(3)]
	names := [9]string{"a", "b", "c", "d", "e", "f", "g", "h", "i"}
	for i := 0; i < nobj; i++ {
		id := "id" + vhDigits[i/10] + vhDigits[i%10]
		vhWriteCmd(s, "SET", names[0], id, "POINT", "1", vhDigits[i%10])
	}
	for c := 1; c < ncols; c++ {
		// ids that sort before, inside and after the ids of the first collection
		vhWriteCmd(s, "SET", names[c], "aa", "STRING", "v")
		vhWriteCmd(s, "SET", names[c], "id10", "FIELD", "f", "2", "FIELD", "code", `"123"`, "FIELD", "flag", `"true"`, "FIELD", "doc", `{"a":1}`, "POINT", "2", "2")
		vhWriteCmd(s, "SET", names[c], "zz", "EX", "1000", "POINT", "3", "3")
	}
	vhWriteCmd(s, "SETCHAN", "ch", "WITHIN", "a", "FENCE", "BOUNDS", "0", "0", "1", "1")
	// hooks and channels with metas and expirations
	vhWriteCmd(s, "SETHOOK", "hk", "http://h/,http://h2/", "META", "owner", "me", "META", "area", "x y", "EX", "1000", "WITHIN", "a", "FENCE", "DETECT", "enter,exit", "BOUNDS", "0", "0", "2", "2")
	vhWriteCmd(s, "SETCHAN", "ch2", "META", "m", "1", "EX", "500", "NEARBY", "a", "FENCE", "POINT", "1", "1", "100")
	live := vhSnapshot(s)
	// a follower is attached: it streams from its own handle on the live file, which the rewrite replaces,
	// so the rewrite must disconnect it (it then reconnects and resyncs)
	fconn := &vhConn{id: 7}
	fcloser := &vhCloser{}
	s.aofconnM[fconn] = fcloser
	s.aofshrink()
	vassert("C06.shrink_disconnects_attached_followers", fconn.closed && fcloser.closed)
	vassert("C09.K1.live_state_untouched", vhSnapshot(s) == live)
	rec, err := vhRestartOn(s.opts.AppendFileName)
	vassert("C09.K1.restart_loads", err == nil)
	vassert("C09.K1.restart_equals_live", vhSameData(rec, live))
	vobs("batches", ncols, nobj, len(live))
	// the server keeps appending to the new file
	vhWriteCmd(s, "SET", "a", "after", "POINT", "9", "9")
	rec2, err2 := vhRestartOn(s.opts.AppendFileName)
	vassert("C09.K1.append_after_shrink_survives", err2 == nil && rec2 == vhSnapshot(s))
	vhCleanupShrink()
}

// interference: one acknowledged write just before the k-th lock acquisition of the rewrite
var vhShrinkOps = [][]string{
	{"SET", "a", "id00", "POINT", "7", "7"},           // overwrite an object (before or behind the cursor)
	{"SET", "a", "new", "POINT", "8", "8"},            // new id in a collection being scanned
	{"SET", "zcol", "x", "STRING", "late"},            // new collection behind the key cursor
	{"SET", "0col", "x", "STRING", "early"},           // new collection before the key cursor
	{"DEL", "a", "id01"},
	{"DROP", "b"},
	{"FSET", "b", "id10", "f", "5"},
	{"EXPIRE", "a", "id02", "500"},
	{"RENAME", "a", "a2"},
	{"RENAME", "b", "a1"},
	{"SETCHAN", "ch2", "WITHIN", "a", "FENCE", "BOUNDS", "0", "0", "2", "2"},
	{"DELCHAN", "ch"},
	{"SET", "a", "new", "FIELD", "f", "1", "EX", "900", "POINT", "8", "8"},
	{"JSET", "b", "aa2", "n", "5"},
	{"SETHOOK", "hk", "http://h/", "META", "m", "1", "EX", "900", "WITHIN", "a", "FENCE", "BOUNDS", "0", "0", "3", "3"},
}

// a second acknowledged write right behind the first one (consecutive entries of the rewrite's side log)
var vhShrinkOps2 = [][]string{
	{"SET", "a", "new", "POINT", "9", "9"},   // keeps the fields an earlier SET gave the object
	{"SET", "a", "new", "XX", "STRING", "x"}, // applies only if the object exists
	{"SET", "a", "id00", "NX", "POINT", "9", "9"},
	{"FSET", "a", "new", "g", "1"},
	{"DEL", "a", "new"},
	{"PERSIST", "a", "new"},
	{"SET", "zcol", "x", "FIELD", "f", "1", "STRING", "later"},
	// the object or collection an earlier write touched goes away again before the rewrite reaches it: the rewritten
	// log then holds a write to something that no longer exists, which a restart must tolerate
	{"DEL", "b", "id10"},
	{"DROP", "b"},
	{"DEL", "a", "id02"},
}

//verif:cfg use=dirmodel b_dataset=2_collections(3+3_objects)+1_channel b_interference=1_write(15_kinds)_optionally_followed_by_a_second_AOFSHRINK_and/or_a_second_write(7_kinds)_before_any_lock_acquisition_of_the_rewrite ignorego=1 maxsteps=40000000
func VH_C09_interference() {
	s, lk := vhShrinkServer()
	for i := 0; i < 3; i++ {
		vhWriteCmd(s, "SET", "a", "id0"+vhDigits[i], "POINT", "1", vhDigits[i])
	}
	vhWriteCmd(s, "SET", "b", "aa", "STRING", "v")
	vhWriteCmd(s, "SET", "b", "id10", "FIELD", "f", "2", "FIELD", "code", `"123"`, "POINT", "2", "2")
	vhWriteCmd(s, "SET", "b", "zz", "EX", "1000", "POINT", "3", "3")
	vhWriteCmd(s, "SETCHAN", "ch", "WITHIN", "a", "FENCE", "BOUNDS", "0", "0", "1", "1")
	at := vchoose(9)
	op := vhShrinkOps[vchoose(len(vhShrinkOps))]
	var op2 []string
	if k := vchoose(len(vhShrinkOps2) + 1); k > 0 {
		op2 = vhShrinkOps2[k-1]
	}
	again := vnondetBool()
	count, busy, fired := 0, false, false
	lk.onLock = func() {
		if busy {
			return
		}
		if count == at {
			busy, fired = true, true
			vhWriteCmd(s, op...)
			if again {
				// a second AOFSHRINK arrives while the first is rewriting: it finds one running and leaves it alone
				s.aofshrink()
				vreach("second-aofshrink-during-the-first")
			}
			if op2 != nil {
				vhWriteCmd(s, op2...)
			}
			busy = false
		}
		count++
	}
	s.aofshrink()
	lk.onLock = nil
	live := vhSnapshot(s)
	rec, err := vhRestartOn(s.opts.AppendFileName)
	vobs("interference", at, strings.Join(op, " "), strings.Join(op2, " "), fired, count)
	vassert("C09.K2.restart_loads", err == nil)
	if fired {
		vreach("interfered")
	}
	kf := vknown("C09-rename-during-shrink") && fired && op[0] == "RENAME"
	vassertK("C09.K2.restart_equals_live", vhSameData(rec, live), kf, "C09-rename-during-shrink")
	vhCleanupShrink()
}

// VH_C09_crash: the process dies just before the k-th directory operation of the rewrite; a restart on the
// data directory (open the live name, creating it empty if absent, and replay it) must give the acknowledged state.
//verif:cfg use=dirmodel b_crash_points=before_each_of_create,rename,rename,open,remove_and_none b_dataset=2_collections+1_channel ignorego=1 maxsteps=40000000 panics=ok
func VH_C09_crash() {
	s, _ := vhShrinkServer()
	for i := 0; i < 3; i++ {
		vhWriteCmd(s, "SET", "a", "id0"+vhDigits[i], "POINT", "1", vhDigits[i])
	}
	vhWriteCmd(s, "SET", "b", "aa", "FIELD", "f", "2", "STRING", "v")
	vhWriteCmd(s, "SETCHAN", "ch", "WITHIN", "a", "FENCE", "BOUNDS", "0", "0", "1", "1")
	live := vhSnapshot(s)
	k := vchoose(6)
	vmDir.ops, vmDir.crashAt, vmDir.crashed, vmDir.trace = 0, k, false, ""
	crashed := vhRunToCrash(func() { s.aofshrink() })
	trace := vmDir.trace
	vmDir.crashAt, vmDir.crashed = -1, false
	vobs("crash", k, crashed, trace)
	rec, err := vhRestartOn(s.opts.AppendFileName)
	vassert("C09.K3.restart_loads", err == nil)
	kf := vknown("C09-crash-between-renames") && crashed && strings.HasSuffix(trace, "rename appendonly.aof appendonly.aof-bak;")
	vassertK("C09.K3.crash_recovers_acknowledged_state", vhSameData(rec, live), kf, "C09-crash-between-renames")
	vhCleanupShrink()
}

func vhRunToCrash(f func()) (crashed bool) {
	defer func() {
		if r := recover(); r != nil {
			if _, ok := r.(vhCrash); ok {
				crashed = true
				return
			}
			panic(r)
		}
	}()
	f()
	return false
}

type vhCloser struct{ closed bool }

func (c *vhCloser) Close() error { c.closed = true; return nil }
