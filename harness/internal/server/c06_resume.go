package server

// VH_C06_resume_position calls followCheckSome directly; it lives in a file of its own so that a change of that
// function's signature leaves out only this harness (the models in c06_follow.go keep compiling).

//verif:cfg use=c06 quick.b_windows=4 thorough.b_windows=16 b_logs=whole_64-byte_commands b_common_prefix=any b_reconvergence=the_logs_may_agree_again_from_any_command_boundary_behind_the_differing_region ignorego=1
func VH_C06_resume_position() {
	const W = 512 * 1024
	maxw := int64(4)
	if vthorough() {
		maxw = 16
	}
	F, L, P := vnondetInt64(), vnondetInt64(), vnondetInt64()
	vassume(F >= 0 && F <= maxw*W && F%vhCmdLen == 0)
	vassume(L >= 0 && L <= maxw*W && L%vhCmdLen == 0)
	vassume(P >= 0 && P <= F && P <= L)
	// the first differing byte is a value byte of a command (offset 51..61), or one log is a prefix of the other
	off := P % vhCmdLen
	vassume((off >= 51 && off < 62) || P == F || P == L)
	// the logs may agree again behind the differing region (an equal-length divergence): from offset Q on
	Q := vnondetInt64()
	minFL := F
	if L < minFL {
		minFL = L
	}
	vassume(Q >= P && Q <= minFL && Q%vhCmdLen == 0)
	vassume(Q > P || P == minFL)
	vh06.F, vh06.L, vh06.P, vh06.Q = F, L, P, Q
	vh06.fileLen, vh06.loaded = F, 0

	s := vhFollower(F, L, P, Q)
	pos, err := s.followCheckSome(vh06.addr, 0, "")
	vobs("resume", F, L, P, Q, pos, err != nil)
	if err != nil {
		vreach("error-return")
		vhFollowerDone(s)
		return
	}
	// known finding: only some windows are compared ("check some"); when the head window agrees and the logs
	// agree again behind a differing region, a probe behind that region is taken for the whole prefix
	kfProbe := vknown("C06-unprobed-window-divergence") && P >= W && Q < minFL
	vassertK("C06.K1.kept_bytes_equal_leaders", vhKeptIsLeaderPrefix(s, pos), kfProbe, "C06-unprobed-window-divergence")
	vassert("C06.K1.file_cut_to_position", vhFollowerFileLen(s) == pos)
	vassert("C06.K1.size_counter_is_position", int64(s.aofsz) == pos)
	vassert("C06.K1.memory_is_replay_of_kept_bytes", vhMemoryIsReplayOf(s, pos))
	vhFollowerDone(s)
}
