package server

import (
	"errors"
	"io"
	"net"
	"os"
	"sync"
	"time"
)

// C06-K3 (leader side): what the leader streams to a follower after "AOF pos" is exactly its log from pos on -
// nothing lost, repeated or reordered - for every interleaving of the streaming goroutine (the REAL liveAOF)
// with a client whose writes are appended and flushed meanwhile (real handleInputCommand / writeAOF / flushAOF
// and its broadcast to the sleeping followers).
//
// Engine: two interpreted threads; the log file, the follower's handle on it and the condition variable are
// models. Native replay: real file, real os.Open handle, real sync.Cond, real goroutines (free running).

//verif:replace[c06c] os.Open => vmStreamOpen
//verif:replace[c06c] (*os.File).Read => vmStreamRead
//verif:replace[c06c] (*os.File).Seek => vmStreamSeek
//verif:replace[c06c] (*os.File).Write => vmStreamAppend
//verif:replace[c06c] (*os.File).Close => vmStreamClose
//verif:replace[c06c] (*os.File).Name => vmStreamName
//verif:replace[c06c] io.Copy => vmStreamCopy
//verif:replace[c06c] (*sync.Cond).Wait => vmCondWait
//verif:replace[c06c] (*sync.Cond).Broadcast => vmCondBroadcast

var vhStream struct {
	reader      *os.File // the follower's handle
	rpos        int
	closed      bool
	gen         int  // broadcasts so far
	writersDone bool // the client has finished
	drained     bool
}

type vhStreamEnd struct{}

func vmStreamOpen(name string) (*os.File, error) {
	vhStream.reader = new(os.File)
	vhStream.rpos = 0
	return vhStream.reader, nil
}
func vmStreamName(f *os.File) string { return "appendonly.aof" }
func vmStreamClose(f *os.File) error {
	if f == vhStream.reader {
		vhStream.closed = true
	}
	return nil
}
func vmStreamSeek(f *os.File, off int64, whence int) (int64, error) {
	if f != vhStream.reader {
		return int64(len(vhLogFile)), nil
	}
	switch whence {
	case 0:
		vhStream.rpos = int(off)
	case 1:
		vhStream.rpos += int(off)
	default:
		vhStream.rpos = len(vhLogFile) + int(off)
	}
	return int64(vhStream.rpos), nil
}
func vmStreamRead(f *os.File, p []byte) (int, error) {
	vgate("fread")
	if vhStream.closed {
		return 0, os.ErrClosed
	}
	if vhStream.rpos >= len(vhLogFile) {
		return 0, io.EOF
	}
	n := copy(p, vhLogFile[vhStream.rpos:])
	vhStream.rpos += n
	return n, nil
}
func vmStreamAppend(f *os.File, p []byte) (int, error) {
	vgate("fappend")
	vhLogFile = append(vhLogFile, p...)
	return len(p), nil
}
func vmStreamCopy(dst io.Writer, src io.Reader) (int64, error) {
	var total int64
	buf := make([]byte, 4096)
	for {
		n, err := src.Read(buf)
		if n > 0 {
			if _, werr := dst.Write(buf[:n]); werr != nil {
				return total, werr
			}
			total += int64(n)
		}
		if err == io.EOF {
			return total, nil
		}
		if err != nil {
			return total, err
		}
	}
}

// Wait returns when a broadcast arrives after it was entered. When the client has finished, one more wake-up is
// granted (any later flush or write broadcasts again); after that the streaming thread ends.
func vmCondWait(c *sync.Cond) {
	g := vhStream.gen
	for vhStream.gen == g {
		if vhStream.writersDone {
			if vhStream.drained {
				panic(vhStreamEnd{})
			}
			vhStream.drained = true
			return
		}
		vwait()
	}
}
func vmCondBroadcast(c *sync.Cond) {
	vgate("broadcast")
	vhStream.gen++
}

// the follower's socket: collects what the leader streams
type vhStreamConn struct {
	s            *Server
	unregistered bool // bytes were streamed while the leader did not list this follower (AOFSHRINK could not reach it)
	mu           sync.Mutex
	got          []byte
	closed   bool
	closedCh chan struct{}
	once     sync.Once
}

// the follower sends nothing while it streams: a read blocks until the connection is closed
func (c *vhStreamConn) Read(p []byte) (int, error) {
	if vnative() {
		<-c.closedCh
		return 0, errors.New("closed")
	}
	for !c.closed {
		vwait()
	}
	return 0, errors.New("closed")
}
func (c *vhStreamConn) Write(p []byte) (int, error) {
	vgate("cwrite")
	// from the first byte on the follower is among the connections AOFSHRINK disconnects when it swaps the files
	if vnative() {
		c.s.mu.RLock()
	}
	if _, ok := c.s.aofconnM[net.Conn(c)]; !ok {
		c.unregistered = true
	}
	if vnative() {
		c.s.mu.RUnlock()
	}
	c.mu.Lock()
	defer c.mu.Unlock()
	c.got = append(c.got, p...)
	return len(p), nil
}
func (c *vhStreamConn) Close() error {
	c.closed = true
	if c.closedCh != nil {
		c.once.Do(func() { close(c.closedCh) })
	}
	return nil
}
func (c *vhStreamConn) LocalAddr() net.Addr                { return vhAddr{} }
func (c *vhStreamConn) RemoteAddr() net.Addr               { return vhAddr{} }
func (c *vhStreamConn) SetDeadline(t time.Time) error      { return nil }
func (c *vhStreamConn) SetReadDeadline(t time.Time) error  { return nil }
func (c *vhStreamConn) SetWriteDeadline(t time.Time) error { return nil }
func (c *vhStreamConn) received() string {
	c.mu.Lock()
	defer c.mu.Unlock()
	return string(c.got)
}

func vhStreamLog(s *Server) string {
	if vnative() {
		b, _ := os.ReadFile(s.aof.Name())
		return string(b)
	}
	return string(vhLogFile)
}

//verif:cfg use=c06c b_initial_log=2_commands b_resume_position=any_command_boundary_or_inside_the_first_command quick.b_client_writes=1 thorough.b_client_writes=2 quick.maxswitches=4 thorough.maxswitches=6 b_interleavings=all_within_the_switch_bound(file_read,file_append,broadcast,socket_write,lock_operations) ignorego=1 ignoregothreads=1 maxpaths=400000 maxsteps=20000000
func VH_C06_leader_stream() {
	s := vhServer()
	s.mu = &vhBLock{}
	if vnative() {
		f, err := os.CreateTemp("", "verif-stream-aof-*")
		if err != nil {
			panic(err)
		}
		s.aof = f
	} else {
		s.aof = new(os.File)
	}
	s.loadedAndReady.Store(true)
	vhLogFile = nil
	vhStream.reader, vhStream.rpos, vhStream.closed, vhStream.gen = nil, 0, false, 0
	vhStream.writersDone, vhStream.drained = false, false
	// the log the follower connects to
	c1 := []string{"SET", "k", "a", "POINT", "1", "2"}
	c2 := []string{"SET", "k", "b", "STRING", "x"}
	for _, c := range [][]string{c1, c2} {
		_, d, _ := vhDo(s, c...)
		s.writeAOF(c, &d)
	}
	s.flushAOF(false)
	l1 := len(vhEncode(c1...))
	pos := [4]int{0, l1, l1 + len(vhEncode(c2...)), 7}[vchoose(4)]
	nw := 1
	if vthorough() {
		nw = 2
	}
	conn := &vhStreamConn{closedCh: make(chan struct{}), s: s}
	rd := NewPipelineReader(conn)
	client := func() {
		for i := 0; i < nw; i++ {
			// what the connection loop does for one write command: handle it, then flush before replying
			cl := &Client{}
			s.handleInputCommand(cl, &Message{Args: []string{"SET", "k", "w" + vhDigits[i], "POINT", "3", "4"}, ConnType: RESP, OutputType: RESP})
			s.mu.Lock()
			s.flushAOF(false)
			s.mu.Unlock()
		}
		vhStream.writersDone = true
	}
	var serr error
	if vnative() {
		done := make(chan struct{})
		go func() {
			serr = s.liveAOF(int64(pos), conn, rd, nil)
			close(done)
		}()
		client()
		want := 5 + len(vhStreamLog(s)) - pos
		for i := 0; i < 1500 && len(conn.received()) < want; i++ {
			time.Sleep(2 * time.Millisecond)
			s.fcond.Broadcast() // what the next flush would do
		}
		// end the stream the way a disconnecting follower / AOFSHRINK does: close the leader's handle
		s.mu.Lock()
		for _, f := range s.aofconnM {
			f.Close()
		}
		s.mu.Unlock()
		for i := 0; i < 1500; i++ {
			s.fcond.Broadcast()
			select {
			case <-done:
				i = 1500
			case <-time.After(2 * time.Millisecond):
			}
		}
	} else {
		vspawn(func() {
			defer func() {
				if r := recover(); r != nil {
					if _, ok := r.(vhStreamEnd); !ok {
						panic(r)
					}
				}
			}()
			serr = s.liveAOF(int64(pos), conn, rd, nil)
		})
		vspawn(client)
		vrunThreads()
	}
	got := conn.received()
	log := vhStreamLog(s)
	vobs("stream", pos, nw, len(got), len(log))
	vassert("C06.K3.stream_starts_with_ok", len(got) >= 5 && got[:5] == "+OK\r\n")
	vassert("C06.K3.stream_is_the_log_from_the_resume_position", got[5:] == log[pos:])
	vassert("C06.K3.handle_released", len(s.aofconnM) == 0)
	vassert("C06.K3.follower_is_registered_while_it_is_streamed_to", !conn.unregistered)
	_ = serr
	if vnative() {
		name := s.aof.Name()
		s.aof.Close()
		os.Remove(name)
	}
}
