package server

import (
	"strconv"
	"strings"

	"github.com/tidwall/tile38/internal/collection"
	"github.com/tidwall/tile38/internal/object"
)

// C19 (server level): after a short history that changes object kinds (string <-> point <-> rectangle), deletes,
// renames and drops, what STATS, BOUNDS, SCAN COUNT, SEARCH COUNT and KEYS report equals what is recomputed
// from the objects GET can retrieve. (The container-level harness VH_C19_history decides the counters
// themselves; this one decides that the commands report them, per collection.)

type vhTotals struct {
	objects, strings, points, weight int
	minX, minY, maxX, maxY           float64
	spatial                          int
}

func vhRecount(s *Server, key string) (t vhTotals, ok bool) {
	col, _ := s.cols.Get(key)
	if col == nil {
		return t, false
	}
	col.Scan(false, nil, nil, func(o *object.Object) bool {
		if col.Get(o.ID()) != o {
			return true
		}
		t.objects++
		t.weight += o.Weight()
		t.points += o.Geo().NumPoints()
		if !o.IsSpatial() {
			t.strings++
			return true
		}
		if o.Geo().Empty() {
			return true
		}
		r := o.Rect()
		if t.spatial == 0 {
			t.minX, t.minY, t.maxX, t.maxY = r.Min.X, r.Min.Y, r.Max.X, r.Max.Y
		} else {
			t.minX, t.minY, t.maxX, t.maxY = min(t.minX, r.Min.X), min(t.minY, r.Min.Y), max(t.maxX, r.Max.X), max(t.maxY, r.Max.Y)
		}
		t.spatial++
		return true
	})
	return t, true
}

var vhTotalsOps = [][]string{
	{"SET", "fleet", "truck1", "STRING", "now-a-string"},             // point -> string
	{"SET", "fleet", "truck2", "POINT", "10", "20"},                 // string -> point
	{"SET", "fleet", "truck1", "BOUNDS", "30", "-120", "40", "-100"}, // point -> rectangle (moves the bounds)
	{"SET", "fleet", "truck2", "OBJECT", `{"type":"LineString","coordinates":[[1,1],[2,2],[3,3]]}`},
	{"SET", "fleet", "truck7", "OBJECT", `{"type":"GeometryCollection","geometries":[]}`},
	{"SET", "fleet", "truck8", "FIELD", "a", "1", "FIELD", "b", "two", "STRING", "eight"},
	{"DEL", "fleet", "truck1"}, {"DEL", "fleet", "truck2"}, {"DEL", "fleet", "truck4"}, {"PDEL", "fleet", "truck[12]"},
	{"FSET", "fleet", "truck1", "load", "12.5"}, {"FSET", "fleet", "truck2", "code", "0"},
	{"EXPIRE", "fleet", "truck1", "9"}, {"PERSIST", "fleet", "truck4"},
	{"JSET", "fleet", "truck2", "a", "1"}, {"JSET", "fleet", "truck1", "properties.n", "1"},
	{"RENAME", "user", "fleet"}, {"RENAME", "fleet", "cars"}, {"DROP", "fleet"},
	// field, deadline and document changes on the object written at the symbolic id (any kind)
	{"FSET", "fleet", "?", "load", "12.5", "name", "a longer string value"}, {"FSET", "fleet", "?", "w", "0"},
	{"EXPIRE", "fleet", "?", "9"}, {"PERSIST", "fleet", "?"}, {"DEL", "fleet", "?"},
}

func vhStatOf(arr []string, name string) int {
	for i := 0; i+1 < len(arr); i += 2 {
		if arr[i] == name {
			n, err := strconv.Atoi(arr[i+1])
			if err != nil {
				return -1
			}
			return n
		}
	}
	return -1
}

//verif:cfg quick.b_history=1_command thorough.b_history=2_commands b_first=overwrite_or_insert_at_a_symbolic_id(string|point|rectangle|nothing) b_commands=24(kind_changes,deletes,field_and_deadline_changes,JSET,RENAME,DROP) b_dataset=points,string,deadline,fields,JSON_document,empty_geometry ignorego=1
func VH_C19_server_totals() {
	s, _ := vhGateServer()
	n := 1
	if vthorough() {
		n = 2
	}
	// first an overwrite or insertion at a symbolic id ("truck" + any byte), of any kind
	id := "truck" + vnondetStringN(1)
	switch vchoose(4) {
	case 0:
		vhDo(s, "SET", "fleet", id, "STRING", "s")
	case 1:
		vhDo(s, "SET", "fleet", id, "EX", "50", "POINT", "10", "20")
	case 2:
		vhDo(s, "SET", "fleet", id, "FIELD", "w", "3", "BOUNDS", "-5", "-6", "7", "8")
	}
	for i := 0; i < n; i++ {
		op := append([]string(nil), vhTotalsOps[vchoose(len(vhTotalsOps))]...)
		for k := range op {
			if op[k] == "?" {
				op[k] = id
			}
		}
		vhDo(s, op...)
		vobs("op", strings.Join(op, " "))
	}
	nk := 0
	for _, key := range []string{"fleet", "user", "cars", "empties"} {
		t, ok := vhRecount(s, key)
		st, _, err := vhDo(s, "STATS", key)
		vassert("C19.S.stats_ok", err == nil && len(st.Array()) == 1)
		if !ok {
			vassert("C19.S.stats_null_for_missing_key", st.Array()[0].IsNull())
			b, _, _ := vhDo(s, "BOUNDS", key)
			vassert("C19.S.bounds_null_for_missing_key", b.IsNull())
			continue
		}
		nk++
		a := vhStrs(st.Array()[0])
		vassert("C19.S.num_objects", vhStatOf(a, "num_objects") == t.objects)
		vassert("C19.S.num_strings", vhStatOf(a, "num_strings") == t.strings)
		vassert("C19.S.num_points", vhStatOf(a, "num_points") == t.points)
		vassert("C19.S.in_memory_size", vhStatOf(a, "in_memory_size") == t.weight)
		sc, _, _ := vhDo(s, "SCAN", key, "COUNT")
		vassert("C19.S.scan_count", sc.Integer() == t.objects)
		se, _, _ := vhDo(s, "SEARCH", key, "COUNT")
		vassert("C19.S.search_count", se.Integer() == t.strings)
		wi, _, _ := vhDo(s, "INTERSECTS", key, "COUNT", "BOUNDS", "-90", "-180", "90", "180")
		vassert("C19.S.whole_world_count", wi.Integer() == t.spatial)
		b, _, err := vhDo(s, "BOUNDS", key)
		vassert("C19.S.bounds_ok", err == nil)
		if t.spatial > 0 {
			c := b.Array()
			vassert("C19.S.bounds", len(c) == 2 && c[0].Array()[0].Float() == t.minX && c[0].Array()[1].Float() == t.minY &&
				c[1].Array()[0].Float() == t.maxX && c[1].Array()[1].Float() == t.maxY)
		}
	}
	keys, _, _ := vhDo(s, "KEYS", "*")
	cnt := 0
	s.cols.Scan(func(key string, col *collection.Collection) bool { cnt++; return true })
	vassert("C19.S.keys_lists_every_collection", len(keys.Array()) == cnt && cnt == nk)
	vreach("totals-compared")
}
