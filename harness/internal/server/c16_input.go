package server

import (
	"bytes"
	"strings"
)

// C16: the messages obtained from a byte stream do not depend on how the stream is cut
// into reads, and no input makes the reading path panic.
//
// vhFeed restates the five statements with which the connection loop (netServe) hands one
// socket read to the pipeline reader; everything below it is the real code.
func vhFeed(client *Client, in []byte) ([]*Message, error) {
	packet := client.in.Begin(in)
	pr := &client.pr
	rdbuf := bytes.NewBuffer(packet)
	pr.rd = rdbuf
	pr.wr = client
	msgs, err := pr.ReadMessages()
	packet = packet[len(packet)-rdbuf.Len():]
	client.in.End(packet)
	return msgs, err
}

// vhClosing reports whether the connection loop stops reading after this message.
func vhClosing(m *Message) bool {
	return m.ConnType == HTTP || m.ConnType == WebSocket
}

// vhSameMsgs compares two message sequences up to the first message that closes the connection.
func vhSameMsgs(a, b []*Message) bool {
	eq := true
	i := 0
	for ; i < len(a) && i < len(b); i++ {
		x, y := a[i], b[i]
		if len(x.Args) != len(y.Args) {
			return false
		}
		for j := range x.Args {
			eq = vand(eq, x.Args[j] == y.Args[j])
		}
		if x.ConnType != y.ConnType || x.OutputType != y.OutputType || x.Auth != y.Auth {
			return false
		}
		if vhClosing(x) {
			return eq
		}
	}
	if len(a) != len(b) {
		return false
	}
	return eq
}

func vhEndsClosed(a []*Message) bool {
	for _, m := range a {
		if vhClosing(m) {
			return true
		}
	}
	return false
}

func vhErrText(err error) string {
	if err == nil {
		return ""
	}
	return err.Error()
}

// vhSplitCheck feeds stream whole and cut at k and compares what the connection loop would see.
func vhSplitCheck(stream []byte, k int) {
	vobs("stream", string(stream), k)
	whole := new(Client)
	mA, eA := vhFeed(whole, append([]byte(nil), stream...))
	vobs("whole", len(mA), vhErrText(eA))

	cut := new(Client)
	m1, e1 := vhFeed(cut, append([]byte(nil), stream[:k]...))
	vobs("part1", len(m1), vhErrText(e1))
	vreach("first-part-read")
	if e1 != nil || vhEndsClosed(m1) {
		// the connection ends here: the unsplit run must end the same way with the same messages
		vassert("C16.K1.split_same_messages", vhSameMsgs(mA, m1))
		if !vhEndsClosed(m1) {
			vassert("C16.K1.split_same_error", vhErrText(eA) == vhErrText(e1))
		}
		return
	}
	m2, e2 := vhFeed(cut, append([]byte(nil), stream[k:]...))
	all := append(append([]*Message(nil), m1...), m2...)
	vassert("C16.K1.split_same_messages", vhSameMsgs(mA, all))
	if !vhEndsClosed(all) {
		vassert("C16.K1.split_same_error", vhErrText(eA) == vhErrText(e2))
	}
}

// VH_C16_split_symbolic: a fully symbolic stream of N bytes cut at every offset.
//verif:cfg quick.b_stream_bytes=5 thorough.b_stream_bytes=7 b_cuts=every_offset
func VH_C16_split_symbolic() {
	n := 5
	if vthorough() {
		n = 7
	}
	stream := []byte(vnondetStringN(n))
	k := 1 + vchoose(n-1)
	vhSplitCheck(stream, k)
}

func vhCutEverywhere(stream []byte) {
	k := 1 + vchoose(len(stream)-1)
	vhSplitCheck(stream, k)
}

func vhCat(parts ...string) []byte {
	var b []byte
	for _, p := range parts {
		b = append(b, p...)
	}
	return b
}

// VH_C16_resp_bulklen: a RESP array whose bulk-length digits and payload are symbolic.
//verif:cfg b_template=*1\r\n$DDD\r\nXX b_symbolic_bytes=5
func VH_C16_resp_bulklen() {
	d := vnondetString(3)
	x := vnondetString(2)
	vhCutEverywhere(vhCat("*1\r\n$", d, "\r\n", x))
}

// VH_C16_resp_count: the array count digits are symbolic.
//verif:cfg b_template=*DD\r\n$1\r\nX\r\n b_symbolic_bytes=3
func VH_C16_resp_count() {
	d := vnondetString(2)
	x := vnondetStringN(1)
	vhCutEverywhere(vhCat("*", d, "\r\n$1\r\n", x, "\r\n"))
}

// VH_C16_resp_pipeline: two pipelined RESP commands with binary-safe symbolic arguments.
//verif:cfg b_template=*2\r\n$1\r\nA\r\n$2\r\nBC\r\n*1\r\n$1\r\nD\r\n b_symbolic_bytes=4
func VH_C16_resp_pipeline() {
	a := vnondetStringN(1)
	bc := vnondetStringN(2)
	d := vnondetStringN(1)
	vhCutEverywhere(vhCat("*2\r\n$1\r\n", a, "\r\n$2\r\n", bc, "\r\n*1\r\n$1\r\n", d, "\r\n"))
}

// VH_C16_telnet: a telnet-style line (quotes and escapes arise from the symbolic bytes) followed by a second line.
//verif:cfg quick.b_template=XXX\r\nY\n quick.b_symbolic_bytes=4 thorough.b_template=XXXX\r\nYY\n thorough.b_symbolic_bytes=6
func VH_C16_telnet() {
	nx, ny := 3, 1
	if vthorough() {
		nx, ny = 4, 2
	}
	x := vnondetStringN(nx)
	y := vnondetStringN(ny)
	vassume(x[0] != '*' && x[0] != '$')
	vhCutEverywhere(vhCat(x, "\r\n", y, "\n"))
}

// VH_C16_native: the native "$<len> <payload>\r\n" framing with symbolic length digits and payload.
//verif:cfg b_template=$DD_XXX\r\n b_symbolic_bytes=5
func VH_C16_native() {
	d := vnondetString(2)
	x := vnondetString(3)
	vhCutEverywhere(vhCat("$", d, " ", x, "\r\n"))
}

// VH_C16_http_get: an HTTP GET whose path bytes are symbolic.
//verif:cfg b_template=GET_/XXX_HTTP/1.1\r\nHost:_x\r\n\r\n b_symbolic_bytes=3
func VH_C16_http_get() {
	x := vnondetStringN(3)
	vhCutEverywhere(vhCat("GET /", x, " HTTP/1.1\r\nHost: x\r\n\r\n"))
}

// VH_C16_http_post: an HTTP POST with a symbolic body and symbolic Content-Length digit.
//verif:cfg b_template=POST_/_HTTP/1.1\r\nContent-Length:_D\r\n\r\nXXX b_symbolic_bytes=4
func VH_C16_http_post() {
	d := vnondetStringN(1)
	x := vnondetStringN(3)
	vhCutEverywhere(vhCat("POST / HTTP/1.1\r\nContent-Length: ", d, "\r\n\r\n", x))
}

// vhSplitCheck3 cuts the stream twice (three reads on one connection).
func vhSplitCheck3(stream []byte, k1, k2 int) {
	vobs("stream3", string(stream), k1, k2)
	whole := new(Client)
	mA, eA := vhFeed(whole, append([]byte(nil), stream...))
	cut := new(Client)
	var all []*Message
	var err error
	bounds := [4]int{0, k1, k2, len(stream)}
	for p := 0; p < 3; p++ {
		var m []*Message
		m, err = vhFeed(cut, append([]byte(nil), stream[bounds[p]:bounds[p+1]]...))
		all = append(all, m...)
		if err != nil || vhEndsClosed(all) {
			break
		}
	}
	vreach("three-parts-read")
	vassert("C16.K1.split3_same_messages", vhSameMsgs(mA, all))
	if !vhEndsClosed(all) {
		vassert("C16.K1.split3_same_error", vhErrText(eA) == vhErrText(err))
	}
}

// VH_C16_three_reads: three pipelined commands (RESP, RESP, telnet) cut at every pair of offsets,
// so that a read can end inside a command, the next exactly on a command boundary, and more follows.
//verif:cfg b_template=*1\r\n$1\r\nA\r\n*2\r\n$1\r\nB\r\n$1\r\nC\r\nDD\r\n b_symbolic_bytes=5 b_cuts=every_pair_of_offsets
func VH_C16_three_reads() {
	a := vnondetStringN(1)
	b := vnondetStringN(1)
	c := vnondetStringN(1)
	d := vnondetStringN(2)
	stream := vhCat("*1\r\n$1\r\n", a, "\r\n*2\r\n$1\r\n", b, "\r\n$1\r\n", c, "\r\n", d, "\r\n")
	k1 := 1 + vchoose(len(stream)-2)
	k2 := k1 + 1 + vchoose(len(stream)-k1-1)
	vhSplitCheck3(stream, k1, k2)
}

// VH_C16_burst_through_connection: a pipeline of thousands of commands arriving as one burst whose size lies around
// the connection's 65535-byte read buffer, served by the REAL connection closure of netServe (its socket buffer,
// InputStream and PipelineReader together): exactly one reply per command, whatever the burst size, also when
// the last byte of the burst does not fit into the first read.
//verif:cfg use=c08 b_burst_bytes=65534..65538_and_131072(symbolic_choice) b_commands=~4680_PINGs(RESP_and_telnet_framing_mixed) ignorego=1 maxsteps=400000000 maxalloc=400000
func VH_C16_burst_through_connection() {
	s := vhAckServer()
	target := [6]int{65534, 65535, 65536, 65537, 65538, 131072}[vchoose(6)]
	respPing := "*1\r\n$4\r\nPING\r\n" // 14 bytes
	telPing := "PING\r\n"               // 6 bytes
	lfPing := "PING\n"                  // 5 bytes (bare LF line end)
	rest := target
	n := 0
	var data []byte
	if rest%2 == 1 {
		data = append(data, lfPing...)
		rest -= 5
		n++
	}
	a := rest / 14
	for (rest-14*a)%6 != 0 {
		a--
	}
	b := (rest - 14*a) / 6
	for i := 0; i < a; i++ {
		data = append(data, respPing...)
	}
	for i := 0; i < b; i++ {
		data = append(data, telPing...)
	}
	n += a + b
	vassert("C16.K3.burst_built", len(data) == target)
	c := &vhConn{s: s, id: 0, stream: data}
	vcallAnonOrSkip(s, c)
	out := strings.Join(c.outs, "")
	replies := 0
	for i := 0; i+7 <= len(out); i++ {
		if out[i] == '+' && out[i:i+7] == "+PONG\r\n" {
			replies++
		}
	}
	vobs("burst", target, n, replies)
	vassert("C16.K3.one_reply_per_command_whatever_the_burst_size", replies == n && len(out) == 7*n)
}
