package server

import (
	"errors"
	"net"
	"sync"
	"time"
)

// vhLiveConn: the socket of a live geofence connection (native replay): writes are counted, Read blocks
// until the connection is closed.
type vhLiveConn struct {
	mu     sync.Mutex
	writes int
	closed chan struct{}
	once   sync.Once
}

func (c *vhLiveConn) Read(p []byte) (int, error) {
	<-c.closed
	return 0, errors.New("closed")
}
func (c *vhLiveConn) Write(p []byte) (int, error) {
	c.mu.Lock()
	c.writes++
	c.mu.Unlock()
	return len(p), nil
}
func (c *vhLiveConn) Close() error                       { c.once.Do(func() { close(c.closed) }); return nil }
func (c *vhLiveConn) LocalAddr() net.Addr                { return vhAddr{} }
func (c *vhLiveConn) RemoteAddr() net.Addr               { return vhAddr{} }
func (c *vhLiveConn) SetDeadline(t time.Time) error      { return nil }
func (c *vhLiveConn) SetReadDeadline(t time.Time) error  { return nil }
func (c *vhLiveConn) SetWriteDeadline(t time.Time) error { return nil }
func (c *vhLiveConn) nwrites() int {
	c.mu.Lock()
	defer c.mu.Unlock()
	return c.writes
}

func vhWaitFor(cond func() bool, d time.Duration) bool {
	deadline := time.Now().Add(d)
	for time.Now().Before(deadline) {
		if cond() {
			return true
		}
		time.Sleep(2 * time.Millisecond)
	}
	return cond()
}

// vhNativeLive runs the real goLive goroutine for the fence, performs the two SETs through handleInputCommand
// and reports whether the second one made the live goroutine change the group trees, and the lock log meanwhile.
func vhNativeLive(s *Server, lk *vhLock, fence *liveFenceSwitches, msg *Message, p1, p2 [2]string) (bool, string) {
	s.aof = nil // no log needed; writeAOF still queues the write for live fences
	var wg sync.WaitGroup
	wg.Add(1)
	go s.processLives(&wg)
	conn := &vhLiveConn{closed: make(chan struct{})}
	rd := &PipelineReader{rd: conn, wr: conn}
	done := make(chan struct{})
	go func() {
		s.goLive(*fence, conn, rd, msg, false)
		close(done)
	}()
	vhWaitFor(func() bool { return conn.nwrites() >= 1 }, 5*time.Second) // the "live" greeting
	set := func(p [2]string) {
		client := &Client{}
		m := &Message{Args: []string{"SET", "fleet", "car", "POINT", p[0], p[1]}, ConnType: RESP, OutputType: RESP}
		s.handleInputCommand(client, m)
	}
	gh, gobj := vhTreeLen(s.groupHooks), vhTreeLen(s.groupObjects)
	lk.takeLog()
	set(p1)
	time.Sleep(400 * time.Millisecond) // let the live goroutine digest the first write
	before := conn.nwrites()
	set(p2)
	vhWaitFor(func() bool { return conn.nwrites() > before }, 1500*time.Millisecond)
	time.Sleep(50 * time.Millisecond)
	changed := vhTreeLen(s.groupHooks) != gh || vhTreeLen(s.groupObjects) != gobj
	log := lk.takeLog()
	conn.Close()
	<-done
	s.stopServer.Store(true)
	s.lcond.Broadcast()
	wg.Wait()
	return changed, log
}
