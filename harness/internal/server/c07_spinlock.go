package server

// C07-K2: the spin lock that can replace the server's RWMutex (--spinlock) is a readers-writer lock:
// under every interleaving of its atomic operations, a writer is alone and readers never overlap a writer.
// Real rwspinlock code, 2..3 interpreted threads, context switches at every atomic operation.

//verif:visible[spin] (*sync/atomic.Int32).Load
//verif:visible[spin] (*sync/atomic.Int32).CompareAndSwap
//verif:visible[spin] (*sync/atomic.Int32).Add

type vhSpinGhost struct {
	writers, readers int
	bad              bool
	entered          int
}

func vhSpinWorker(l *rwspinlock, g *vhSpinGhost, writer bool) {
	if writer {
		l.Lock()
		g.writers++
		if g.writers != 1 || g.readers != 0 {
			g.bad = true
		}
		vgate("cs")
		if g.writers != 1 || g.readers != 0 {
			g.bad = true
		}
		g.writers--
		g.entered++
		l.Unlock()
		return
	}
	l.RLock()
	g.readers++
	if g.writers != 0 {
		g.bad = true
	}
	vgate("cs")
	if g.writers != 0 {
		g.bad = true
	}
	g.readers--
	g.entered++
	l.RUnlock()
}

//verif:cfg use=spin b_threads=2 b_roles=any_mix_of_readers_and_writers b_interleavings=all ignorego=1
func VH_C07_spinlock_two() {
	l := &rwspinlock{}
	g := &vhSpinGhost{}
	w0, w1 := vnondetBool(), vnondetBool()
	vspawn(func() { vhSpinWorker(l, g, w0) })
	vspawn(func() { vhSpinWorker(l, g, w1) })
	vrunThreads()
	vassert("C07.K2.mutual_exclusion", !g.bad)
	vassert("C07.K2.everybody_got_in", g.entered == 2)
	vassert("C07.K2.lock_word_back_to_zero", l.state.Load() == 0)
}

//verif:cfg tier=thorough use=spin b_threads=3(writer,reader,reader_or_writer) maxswitches=2 b_interleavings=at_most_2_context_switches b_spin=a_thread_that_called_runtime.Gosched_runs_again_only_after_another_thread_stepped ignorego=1 maxpaths=600000
func VH_C07_spinlock_three() {
	l := &rwspinlock{}
	g := &vhSpinGhost{}
	w2 := vnondetBool()
	vspawn(func() { vhSpinWorker(l, g, true) })
	vspawn(func() { vhSpinWorker(l, g, false) })
	vspawn(func() { vhSpinWorker(l, g, w2) })
	vrunThreads()
	vassert("C07.K2.mutual_exclusion", !g.bad)
	vassert("C07.K2.everybody_got_in", g.entered == 3)
	vassert("C07.K2.lock_word_back_to_zero", l.state.Load() == 0)
}
