package server

import "strings"

// C02 (server level): for every query area syntax and every object kind, WITHIN / INTERSECTS return exactly the
// ids for which TEST - the same predicate evaluated without an index - answers 1. The dataset holds points (one on
// an edge and one on a corner of the BOUNDS area), rectangles, a LineString, polygons, an empty geometry and a
// string; a history step overwrites an object by one of another kind or extent, deletes one, or re-creates an
// emptied collection, before the comparison. Everything is concrete here (the rare-coordinate cases are K1/K2's):
// the subject is the wiring of area parsing, index search and per-object predicate over kinds and histories.

var vhAreaObjs = [][]string{
	{"p_in", "POINT", "33.5", "-112.2"},
	{"p_edge", "POINT", "33", "-112.1"},   // on the southern edge of BOUNDS 33 -113 34 -112
	{"p_corner", "POINT", "34", "-112"},   // its north-east corner
	{"p_far", "POINT", "10", "10"},
	{"r_in", "BOUNDS", "33.2", "-112.8", "33.4", "-112.6"},
	{"r_straddle", "BOUNDS", "33.9", "-112.1", "34.2", "-111.8"},
	{"line", "OBJECT", `{"type":"LineString","coordinates":[[-112.9,33.1],[-111.5,34.5]]}`},
	{"poly", "OBJECT", `{"type":"Polygon","coordinates":[[[-112.7,33.3],[-112.3,33.3],[-112.3,33.7],[-112.7,33.7],[-112.7,33.3]]]}`},
	{"zone", "OBJECT", `{"type":"Polygon","coordinates":[[[-113,33],[-112,33],[-112,34],[-113,34],[-113,33]]]}`},
	{"empty", "OBJECT", `{"type":"GeometryCollection","geometries":[]}`},
	{"str", "STRING", "not spatial"},
}

var vhAreas = [][]string{
	{"BOUNDS", "33", "-113", "34", "-112"},
	{"TILE", "96", "204", "9"},
	{"QUADKEY", "023101012"},
	{"HASH", "9tbq"},
	{"GET", "fleet", "zone"},
	{"OBJECT", `{"type":"Polygon","coordinates":[[[-113,33],[-112,33.2],[-112.2,34],[-113,33.8],[-113,33]]]}`},
	{"CIRCLE", "33.5", "-112.5", "40000"},
	{"BOUNDS", "-90", "-180", "90", "180"},
}

//verif:cfg b_objects=11_(points_on_edge/corner,_rectangles,_LineString,_polygons,_empty_geometry,_string) b_areas=8_(BOUNDS,TILE,QUADKEY,HASH,GET,OBJECT,CIRCLE,whole_world) b_history=none|overwrite_by_another_kind_(6_variants)|delete|collection_emptied_and_created_again b_commands=WITHIN|INTERSECTS ignorego=1
func VH_C02_areas_vs_test() {
	s := vhServer()
	s.loadedAndReady.Store(true)
	for _, o := range vhAreaObjs {
		vhDo(s, append([]string{"SET", "fleet", o[0]}, o[1:]...)...)
	}
	switch h := vchoose(10); h {
	case 1: // an empty geometry becomes a real one
		vhDo(s, "SET", "fleet", "empty", "POINT", "33.6", "-112.4")
	case 2: // a real one becomes empty
		vhDo(s, "SET", "fleet", "p_in", "OBJECT", `{"type":"GeometryCollection","geometries":[]}`)
	case 3: // a point grows into a rectangle around the area
		vhDo(s, "SET", "fleet", "p_far", "BOUNDS", "32", "-114", "35", "-111")
	case 4: // a rectangle shrinks to a point outside
		vhDo(s, "SET", "fleet", "r_in", "POINT", "10", "10")
	case 5: // a string becomes a point and a point a string
		vhDo(s, "SET", "fleet", "str", "POINT", "33.1", "-112.9")
		vhDo(s, "SET", "fleet", "p_corner", "STRING", "gone")
	case 6: // a polygon is replaced by its own bounding rectangle moved away
		vhDo(s, "SET", "fleet", "poly", "BOUNDS", "40", "-100", "41", "-99")
	case 7:
		vhDo(s, "DEL", "fleet", "r_straddle")
		vhDo(s, "DEL", "fleet", "line")
	case 8: // the collection is emptied and created again
		vhDo(s, "DROP", "fleet")
		for _, o := range vhAreaObjs {
			vhDo(s, append([]string{"SET", "fleet", o[0]}, o[1:]...)...)
		}
	case 9: // fields and deadlines re-create the object around the same geometry
		vhDo(s, "FSET", "fleet", "poly", "speed", "5")
		vhDo(s, "EXPIRE", "fleet", "r_in", "1000")
		vhDo(s, "PERSIST", "fleet", "r_in")
	}
	cmd := [2]string{"WITHIN", "INTERSECTS"}[vchoose(2)]
	area := vhAreas[vchoose(len(vhAreas))]
	r, _, err := vhDo(s, append([]string{cmd, "fleet", "LIMIT", "1000", "IDS"}, area...)...)
	vassert("C02.A.search_runs", err == nil && len(r.Array()) == 2)
	var got []string
	for _, v := range r.Array()[1].Array() {
		got = append(got, v.String())
	}
	// the oracle: every current id, tested one by one without the index
	ids, _, _ := vhDo(s, "SCAN", "fleet", "LIMIT", "1000", "IDS")
	var want []string
	for _, v := range ids.Array()[1].Array() {
		id := v.String()
		t, _, terr := vhDo(s, append([]string{"TEST", "GET", "fleet", id, cmd}, area...)...)
		if terr == nil && t.Integer() == 1 {
			want = append(want, id)
		}
	}
	sortStrings(got)
	sortStrings(want)
	vobs("areas", cmd, area[0], strings.Join(got, ","), strings.Join(want, ","))
	// known finding: TEST answers 1 for an EMPTY geometry WITHIN a CIRCLE (vacuously: none of its parts lies outside)
	// while it answers 0 for every other area kind; empty geometries are never indexed, so the search does not
	// return them. The class: WITHIN + CIRCLE, and the only ids TEST accepts beyond the search are empty geometries.
	onlyEmptyMissing := cmd == "WITHIN" && area[0] == "CIRCLE" && len(want) > len(got)
	gi := 0
	for _, id := range want {
		if gi < len(got) && got[gi] == id {
			gi++
			continue
		}
		col, _ := s.cols.Get("fleet")
		if col == nil || col.Get(id) == nil || !col.Get(id).Geo().Empty() {
			onlyEmptyMissing = false
		}
	}
	if gi != len(got) {
		onlyEmptyMissing = false
	}
	kf := vknown("C02-empty-geometry-within-circle") && onlyEmptyMissing
	vassertK("C02.A.index_search_equals_the_per_object_test", strings.Join(got, ",") == strings.Join(want, ","), kf, "C02-empty-geometry-within-circle")
	if len(want) > 0 {
		vreach("areas-some-match")
	}
}

func sortStrings(a []string) {
	for i := 1; i < len(a); i++ {
		for j := i; j > 0 && a[j] < a[j-1]; j-- {
			a[j], a[j-1] = a[j-1], a[j]
		}
	}
}
