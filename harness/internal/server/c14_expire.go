package server

import (
	"os"
	"strings"
	"time"

	"github.com/tidwall/gjson"
)

// C14: the sweeper deletes exactly the objects whose deadline has passed, each through a logged DEL,
// and a deadline that was moved, removed or overwritten leaves no stale timer behind.

//verif:cfg b_objects=3 b_history=none|overwrite_later_EX|EXPIRE_later|EXPIRE_sooner|PERSIST|SET_without_EX|DEL|overwrite_other_id b_now=any_whole_second_from_3s_before_to_40s_after_the_first_deadline ignorego=1
func VH_C14_sweeper() {
	s := vhServer()
	s.aof = new(os.File)
	vhDo(s, "SET", "k", "a", "EX", "5", "POINT", "1", "2")
	vhDo(s, "SET", "k", "b", "EX", "9", "STRING", "x")
	vhDo(s, "SET", "k", "c", "POINT", "3", "4")
	// a fence around everything and a subscriber: each expiry must reach them as a 'del' notification
	vhDo(s, "SETCHAN", "watch", "WITHIN", "k", "FENCE", "BOUNDS", "-10", "-10", "10", "10")
	sub := newSubtarget()
	s.pubsub.register(pubsubChannel, "watch", sub)
	// and a live fence connection: what the sweeper hands to it is evaluated later, by another goroutine
	s.lives[&liveBuffer{key: "k"}] = true
	d0, _ := vhDeadline(s, "k", "a")
	switch vchoose(8) {
	case 1:
		vhDo(s, "SET", "k", "a", "EX", "20", "POINT", "5", "5") // later deadline on the same id
	case 2:
		vhDo(s, "EXPIRE", "k", "a", "20")
	case 3:
		vhDo(s, "EXPIRE", "k", "b", "2")
	case 4:
		vhDo(s, "PERSIST", "k", "a")
	case 5:
		vhDo(s, "SET", "k", "a", "STRING", "now-a-string") // SET without EX removes the deadline
	case 6:
		vhDo(s, "DEL", "k", "a")
	case 7:
		vhDo(s, "SET", "k", "c", "EX", "7", "POINT", "3", "4")
	}
	ids := [3]string{"a", "b", "c"}
	var dl [3]int64
	var had [3]bool
	for i, id := range ids {
		dl[i], had[i] = vhDeadline(s, "k", id)
	}
	delta := vnondetInt64()
	vassume(delta >= -3 && delta <= 40)
	now := time.Unix(d0/1000000000+delta, 0)
	nowNS := now.UnixNano()
	s.aofbuf = nil
	sub.msgs = nil
	s.lstack = nil
	var wasSpatial [3]bool
	for i, id := range ids {
		if col, _ := s.cols.Get("k"); col != nil && col.Get(id) != nil {
			wasSpatial[i] = col.Get(id).IsSpatial()
		}
	}

	s.backgroundExpireObjects(now)

	log := string(s.aofbuf)
	for i, id := range ids {
		_, still := vhDeadline(s, "k", id)
		due := had[i] && dl[i] != 0 && dl[i] <= nowNS
		logged := strings.Contains(log, string(vhEncode("del", "k", id)))
		vassert("C14.never_early_never_late", still == (had[i] && !due))
		vassert("C14.expiry_is_a_logged_del", logged == due)
		// fences observe the expiry of an object inside their area as a del message (exactly one)
		seen := 0
		for _, m := range sub.msgs {
			if gjson.Get(m.message, "command").String() == "del" && gjson.Get(m.message, "id").String() == id {
				seen++
			}
		}
		if wasSpatial[i] {
			vassert("C14.expiry_is_a_del_notification", seen == vhB2I(due))
		}
		// each expiry is queued for the live fences as its own record of that object
		queued := 0
		for _, d := range s.lstack {
			if d.command == "del" && d.obj != nil && d.obj.ID() == id {
				queued++
			}
		}
		vassert("C14.expiry_is_queued_for_live_fences_once_per_object", queued == vhB2I(due))
	}
	vobs("sweep", delta, len(log))
}

// VH_C14_sweep_collections: one sweep over several collections: every object whose deadline has passed is removed
// (and logged), wherever it lives - a deadline still in the future in one collection does not shield due objects
// in the collections behind it -, and a collection whose last object expires disappears from KEYS.
//verif:cfg b_collections=3 b_objects=5_(deadlines_each_5s|3600s,_one_without_deadline,_one_alone_in_its_collection) b_now=any_whole_second_from_3s_before_to_40s_after_the_first_deadline ignorego=1
func VH_C14_sweep_collections() {
	s := vhServer()
	s.aof = new(os.File)
	exs := [2]string{"5", "3600"}
	type ent struct{ key, id string }
	ents := [5]ent{{"ka", "x"}, {"ka", "y"}, {"kb", "x"}, {"kb", "y"}, {"kc", "x"}}
	var ex [5]int
	for i, e := range ents {
		if i == 3 {
			vhDo(s, "SET", e.key, e.id, "POINT", "1", "2") // kb/y never expires
			ex[i] = -1
			continue
		}
		ex[i] = vchoose(2)
		if i%2 == 0 {
			vhDo(s, "SET", e.key, e.id, "EX", exs[ex[i]], "POINT", "1", "2")
		} else {
			vhDo(s, "SET", e.key, e.id, "EX", exs[ex[i]], "STRING", "v")
		}
	}
	var dl [5]int64
	for i, e := range ents {
		dl[i], _ = vhDeadline(s, e.key, e.id)
	}
	first := dl[0]
	if ex[0] == 1 {
		first = dl[0] - 3595*1000000000
	}
	delta := vnondetInt64()
	vassume(delta >= -3 && delta <= 40)
	now := time.Unix(first/1000000000+delta, 0)
	nowNS := now.UnixNano()
	s.aofbuf = nil

	s.backgroundExpireObjects(now)

	log := string(s.aofbuf)
	anyDue := false
	left := map[string]int{}
	for i, e := range ents {
		_, still := vhDeadline(s, e.key, e.id)
		due := dl[i] != 0 && dl[i] <= nowNS
		if due {
			anyDue = true
		} else {
			left[e.key]++
		}
		vassert("C14.sweep_reaches_every_collection", still == !due)
		vassert("C14.expiry_is_a_logged_del", strings.Contains(log, string(vhEncode("del", e.key, e.id))) == due)
	}
	r, _, _ := vhDo(s, "KEYS", "*")
	var keys []string
	for _, v := range r.Array() {
		keys = append(keys, v.String())
	}
	var want []string
	for _, k := range []string{"ka", "kb", "kc"} {
		if left[k] > 0 {
			want = append(want, k)
		}
	}
	vassert("C14.collection_disappears_with_its_last_object", strings.Join(keys, ",") == strings.Join(want, ","))
	if anyDue {
		vreach("sweep-some-due")
	}
	vobs("sweepcols", delta, ex[0], ex[1], ex[2], ex[4], strings.Join(keys, ","))
}

// VH_C14_ttl: TTL reports the remaining whole seconds, -1 without deadline.
//verif:cfg b_ex=1,10,100,3600,1.9,10.5 b_expire=the_same_six_values_on_a_point_and_on_a_string ignorego=1
func VH_C14_ttl() {
	s := vhServer()
	ex := [6]string{"1", "10", "100", "3600", "1.9", "10.5"}
	exv := [6]int{1, 10, 100, 3600, 1, 10}
	i := vchoose(6)
	vhDo(s, "SET", "k", "a", "EX", ex[i], "POINT", "1", "2")
	vhDo(s, "SET", "k", "c", "POINT", "3", "4")
	r, _, err := vhDo(s, "TTL", "k", "a")
	vassert("C14.ttl_no_error", err == nil)
	// the clock advances between SET and TTL, so the remaining time is in (ex-1, ex]
	if i < 4 {
		vassert("C14.ttl_remaining_seconds", r.Integer() == exv[i] || r.Integer() == exv[i]-1)
	} else {
		// fractional TTLs count: 1.9 s leaves 1 whole second, 10.5 s leaves 10
		vassert("C14.ttl_remaining_seconds_fractional", r.Integer() == exv[i])
	}
	dl, _ := vhDeadline(s, "k", "a")
	left := dl - time.Now().UnixNano()
	want := [6]int64{1000, 10000, 100000, 3600000, 1900, 10500}[i] * 1000000
	vassert("C14.deadline_is_now_plus_ex", left <= want && left > want-500*1000000)
	r2, _, _ := vhDo(s, "TTL", "k", "c")
	vassert("C14.ttl_minus_one_without_deadline", r2.Integer() == -1)
	vhDo(s, "PERSIST", "k", "a")
	r3, _, _ := vhDo(s, "TTL", "k", "a")
	vassert("C14.persist_clears", r3.Integer() == -1)
	// EXPIRE moves the deadline to now + seconds, fractions included (on a point and on a string)
	vhDo(s, "SET", "k", "s", "STRING", "v")
	for _, id := range []string{"c", "s"} {
		j := vchoose(6)
		r4, _, err := vhDo(s, "EXPIRE", "k", id, ex[j])
		vassert("C14.expire_ok", err == nil && r4.Integer() == 1)
		dl, _ := vhDeadline(s, "k", id)
		left := dl - time.Now().UnixNano()
		w := [6]int64{1000, 10000, 100000, 3600000, 1900, 10500}[j] * 1000000
		vassert("C14.expire_deadline_is_now_plus_seconds", left <= w && left > w-500*1000000)
		r5, _, _ := vhDo(s, "TTL", "k", id)
		if j >= 4 {
			vassert("C14.expire_ttl_fractional", r5.Integer() == exv[j])
		}
	}
}

// VH_C14_hooks: hooks and channels created with EX expire the same way: the hook sweeper removes exactly those
// whose (current) deadline has passed, a re-issued or deleted hook leaves no stale timer that removes it early
// or removes its successor, the expiry index holds exactly the installed hooks with a deadline, and every
// removal is logged so that a restart on the log gives the same hooks.
//verif:cfg use=dirmodel b_hooks=channel_EX5+META,webhook_EX9,channel_without_EX b_history=none|same_definition_later_EX|same_definition_no_EX|changed_definition_later_EX|DELCHAN|webhook_sooner_EX|delete_and_recreate_without_EX|PDELCHAN b_now=any_whole_second_from_3s_before_to_40s_after_the_first_deadline ignorego=1
func VH_C14_hooks() {
	s, _ := vhShrinkServer()
	fence := []string{"WITHIN", "k", "FENCE", "BOUNDS", "0", "0", "1", "1"}
	vhWriteCmd(s, append([]string{"SETCHAN", "c1", "META", "m", "1", "EX", "5"}, fence...)...)
	vhWriteCmd(s, append([]string{"SETHOOK", "h1", "http://h/", "EX", "9"}, fence...)...)
	vhWriteCmd(s, append([]string{"SETCHAN", "c2"}, fence...)...)
	vhWriteCmd(s, "SET", "k", "o", "POINT", "5", "5")
	h0 := vhHook(s, "c1")
	vassert("C14.hook_created_with_deadline", h0 != nil && !h0.expires.IsZero())
	d0 := h0.expires
	switch vchoose(8) {
	case 1:
		vhWriteCmd(s, append([]string{"SETCHAN", "c1", "META", "m", "1", "EX", "20"}, fence...)...)
	case 2:
		vhWriteCmd(s, append([]string{"SETCHAN", "c1", "META", "m", "1"}, fence...)...)
	case 3:
		vhWriteCmd(s, "SETCHAN", "c1", "META", "m", "1", "EX", "20", "WITHIN", "k", "FENCE", "BOUNDS", "0", "0", "2", "2")
	case 4:
		vhWriteCmd(s, "DELCHAN", "c1")
	case 5:
		vhWriteCmd(s, append([]string{"SETHOOK", "h1", "http://h/", "EX", "2"}, fence...)...)
	case 6:
		vhWriteCmd(s, "DELCHAN", "c1")
		vhWriteCmd(s, append([]string{"SETCHAN", "c1"}, fence...)...)
	case 7:
		vhWriteCmd(s, "PDELCHAN", "c*")
	}
	names := [3]string{"c1", "h1", "c2"}
	var had [3]bool
	var dl [3]time.Time
	for i, n := range names {
		if h := vhHook(s, n); h != nil {
			had[i], dl[i] = true, h.expires
		}
	}
	delta := vnondetInt64()
	vassume(delta >= -3 && delta <= 40)
	now := d0.Add(time.Duration(delta) * time.Second)

	s.backgroundExpireHooks(now)
	s.flushAOF(false)

	for i, n := range names {
		still := vhHook(s, n) != nil
		due := had[i] && !dl[i].IsZero() && !dl[i].After(now)
		vassert("C14.hook_never_early_never_late", still == (had[i] && !due))
	}
	// the expiry index holds exactly the installed hooks that have a deadline
	stale, indexed := false, 0
	s.hookExpires.Ascend(nil, func(v interface{}) bool {
		h := v.(*Hook)
		if vhHook(s, h.Name) != h || h.expires.IsZero() {
			stale = true
		}
		indexed++
		return true
	})
	withDeadline := 0
	for _, n := range names {
		if h := vhHook(s, n); h != nil && !h.expires.IsZero() {
			withDeadline++
		}
	}
	vassert("C14.hook_expiry_index_has_no_stale_timer", !stale && indexed == withDeadline)
	live := vhSnapshot(s)
	rec, err := vhRestartOn(s.opts.AppendFileName)
	vassert("C14.hook_expiry_restart_loads", err == nil)
	vassert("C14.hook_expiry_is_logged_so_that_a_restart_agrees", rec == live)
	vobs("hooksweep", delta, live)
	vhCleanupShrink()
}

