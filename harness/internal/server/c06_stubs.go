package server

import (
	"errors"
	"strconv"
	"time"

	"github.com/tidwall/resp"
)

// The stub leader of the C06 follower-side harnesses: the network leaves of followStep answered by a scripted
// leader. This file holds only what does not mention followCheckSome by name, so that it keeps compiling when that
// function's signature changes (c06_reconnect.go, which replaces it, is then left out on its own).

//verif:replace[c06b] github.com/tidwall/tile38/internal/server.DialTimeout => vhC06bDial
//verif:replace[c06b] github.com/tidwall/tile38/internal/server.doServer => vhC06bServer
//verif:replace[c06b] (*github.com/tidwall/tile38/internal/server.RESPConn).Do => vhC06bDo
//verif:replace[c06b] (*github.com/tidwall/tile38/internal/server.RESPConn).Close => vhC06bClose
//verif:replace[c06b] (*github.com/tidwall/resp.Reader).ReadMultiBulk => vhC06bReadMB
//verif:replace[c06s] github.com/tidwall/tile38/internal/server.doServer => vhC06bServer
//verif:replace[c06s] (*github.com/tidwall/tile38/internal/server.RESPConn).Do => vhC06bDo
//verif:replace[c06s] (*github.com/tidwall/tile38/internal/server.RESPConn).Close => vhC06bClose
//verif:replace[c06s] (*github.com/tidwall/resp.Reader).ReadMultiBulk => vhC06bReadMB

var vh06b struct {
	active    bool
	s         *Server
	cmds      [][]string // the leader's log at the moment of the connect
	have      int        // how many of them the follower had applied before
	sent      int        // streamed so far
	failAt    int        // stage at which the leader connection fails (-1: after the stream)
	stage     int
	violated  bool
	observed  int
	leaderLen int
	// a FOLLOW issued by a client while this routine is at the given stage (-1: never)
	supersedeAt   int
	onSupersede   func()
	realCheckSome bool // the routine's checksum step is the real followCheckSome (not the stub)
}

func vhC06bLogLen(cmds [][]string) int {
	n := 0
	for _, c := range cmds {
		n += len(vhEncode(c...))
	}
	return n
}

// vhC06bObserve: what a client asking HEALTHZ / SERVER at this instant would be told
func vhC06bObserve() {
	s := vh06b.s
	vh06b.observed++
	col, _ := s.cols.Get("k")
	applied := 0
	if col != nil {
		applied = col.Count()
	}
	if s.caughtUp() && applied < len(vh06b.cmds) {
		vh06b.violated = true
	}
}

func vhC06bFail(stage int) bool {
	vhC06bObserve()
	if vh06b.supersedeAt == stage && vh06b.onSupersede != nil {
		f := vh06b.onSupersede
		vh06b.onSupersede = nil
		f()
	}
	vh06b.stage = stage
	return vh06b.failAt == stage
}

func vhC06bDial(address string, timeout time.Duration) (*RESPConn, error) {
	if !vh06b.active {
		return DialTimeout(address, timeout)
	}
	if vhC06bFail(0) {
		return nil, errors.New("connection refused")
	}
	return &RESPConn{}, nil
}

func vhC06bClose(c *RESPConn) error {
	if !vh06b.active {
		return c.Close()
	}
	return nil
}

func vhC06bServer(conn *RESPConn) (map[string]string, error) {
	if !vh06b.active {
		return doServer(conn)
	}
	if vhC06bFail(1) {
		return nil, errors.New("connection reset")
	}
	return map[string]string{"id": "leader1", "aof_size": strconv.Itoa(vh06b.leaderLen)}, nil
}

func vhC06bDo(conn *RESPConn, commandName string, args ...interface{}) (resp.Value, error) {
	if !vh06b.active {
		return conn.Do(commandName, args...)
	}
	st := 3
	if commandName == "aof" {
		st = 4
	}
	if vhC06bFail(st) {
		return resp.Value{}, errors.New("connection reset")
	}
	return resp.SimpleStringValue("OK"), nil
}

func vhC06bReadMB(rd *resp.Reader) (resp.Value, bool, int, error) {
	if !vh06b.active {
		return rd.ReadMultiBulk()
	}
	if vhC06bFail(5+vh06b.sent) || vh06b.have+vh06b.sent >= len(vh06b.cmds) {
		return resp.Value{}, false, 0, errors.New("connection lost")
	}
	c := vh06b.cmds[vh06b.have+vh06b.sent]
	vh06b.sent++
	vals := make([]resp.Value, len(c))
	for i, a := range c {
		vals[i] = resp.StringValue(a)
	}
	return resp.ArrayValue(vals), false, len(vhEncode(c...)), nil
}

