package server

import (
	"os"
	"strings"
	"sync"
)

// This harness enters the expirer through the closure of backgroundExpiring only; it lives in a file of its own so
// that a change of the signatures of backgroundExpireObjects / backgroundExpireHooks (called directly by the C14
// harnesses) does not take it out.

// VH_C07_expirer_atomic (C07 / C14): one pass of the background expirer (the REAL closure of backgroundExpiring)
// against a client command on the same, already due, object - every interleaving at the lock operations.
// Deciding that an object is due and deleting it is one indivisible step: the outcome is that of one of the
// two serial orders, and the log records the two effects in the order they were applied.
//verif:cfg use=c08 b_threads=expirer_pass+1_client_command b_client=SET_without_EX|PERSIST|EXPIRE_later|SET_EX_later|DEL|GET b_interleavings=all_at_lock_operations ignorego=1 ignoregothreads=1
func VH_C07_expirer_atomic() {
	s := vhServer()
	s.mu = &vhBLock{}
	if vnative() {
		f, err := os.CreateTemp("", "verif-expirer-aof-*")
		if err != nil {
			panic(err)
		}
		s.aof = f
	} else {
		s.aof = new(os.File)
	}
	s.loadedAndReady.Store(true)
	vhDo(s, "SET", "k", "a", "EX", "0", "POINT", "1", "2") // due at once
	vhDo(s, "SET", "k", "keep", "POINT", "3", "4")
	cmds := [][]string{
		{"SET", "k", "a", "POINT", "5", "5"}, {"PERSIST", "k", "a"}, {"EXPIRE", "k", "a", "100"},
		{"SET", "k", "a", "EX", "100", "POINT", "5", "5"}, {"DEL", "k", "a"}, {"GET", "k", "a"},
	}
	ci := vchoose(len(cmds))
	cmd := cmds[ci]
	s.aofbuf = nil
	var reply string
	client := func() {
		cl := &Client{}
		s.handleInputCommand(cl, &Message{Args: append([]string(nil), cmd...), ConnType: RESP, OutputType: RESP})
		reply = string(cl.out)
		if vnative() {
			s.stopServer.Store(true)
		}
	}
	if vnative() {
		var wg sync.WaitGroup
		wg.Add(1)
		vspawn(func() { s.backgroundExpiring(&wg) })
	} else {
		vspawn(func() { vcallAnon("(*Server).backgroundExpiring", s) })
	}
	vspawn(client)
	vrunThreads()
	_, exists := vhDeadline(s, "k", "a")
	dl, _ := vhDeadline(s, "k", "a")
	log := string(s.aofbuf)
	delAt := strings.Index(log, string(vhEncode("del", "k", "a")))
	cmdAt := strings.Index(log, string(vhEncode(cmd...)))
	vobs("expirer", ci, exists, dl != 0, delAt >= 0, cmdAt >= 0, reply)
	switch ci {
	case 0, 3:
		// SET re-creates the object in either order: it exists afterwards (without / with the new deadline)
		vassert("C07.K3.expirer_and_client_serialise", exists && (dl != 0) == (ci == 3))
		vassert("C07.K3.log_order_is_application_order", cmdAt >= 0 && (delAt < 0 || delAt < cmdAt))
	case 1, 2:
		// PERSIST / EXPIRE: either the expirer came first (object gone, negative answer, nothing logged for the client)
		// or the client came first (deadline cleared or moved: the expirer leaves the object alone)
		if exists {
			vassert("C07.K3.expirer_and_client_serialise", reply == ":1\r\n" && delAt < 0 && (dl != 0) == (ci == 2))
		} else {
			vassert("C07.K3.expirer_and_client_serialise", reply == ":0\r\n" && delAt >= 0 && cmdAt < 0)
		}
	case 4:
		vassert("C07.K3.expirer_and_client_serialise", !exists && ((reply == ":1\r\n") != (delAt >= 0 && delAt < cmdAt || cmdAt < 0 && delAt >= 0)))
	default:
		vassert("C07.K3.expirer_and_client_serialise", !exists && delAt >= 0)
	}
	_, keep := vhDeadline(s, "k", "keep")
	vassert("C07.K3.other_objects_untouched", keep)
	if vnative() {
		name := s.aof.Name()
		s.aof.Close()
		os.Remove(name)
	}
}
