package server

func vhNativeServer() *Server { return &Server{} }
