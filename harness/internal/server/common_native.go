package server

import (
	"bytes"
	"io"
	"net"
	"sync"
	"time"

	"github.com/tidwall/btree"
	"github.com/tidwall/rtree"
	"github.com/tidwall/tile38/internal/collection"
)

// vhNativeServer builds the in-memory server the way Serve does, without listeners, files or
// background goroutines (native replay only).
func vhNativeServer() *Server {
	s := &Server{
		follows:  make(map[*bytes.Buffer]bool),
		fcond:    sync.NewCond(&sync.Mutex{}),
		lives:    make(map[*liveBuffer]bool),
		lcond:    sync.NewCond(&sync.Mutex{}),
		hooks:    btree.NewNonConcurrent(byHookName),
		hooksOut: btree.NewNonConcurrent(byHookName),
		hookCross: &rtree.RTree{},
		hookTree:  &rtree.RTree{},
		aofconnM:  make(map[net.Conn]io.Closer),
		started:   time.Now(),
		conns:     make(map[int]*Client),
		groupHooks:   btree.NewNonConcurrent(byGroupHook),
		groupObjects: btree.NewNonConcurrent(byGroupObject),
		hookExpires:  btree.NewNonConcurrent(byHookExpires),
		cols:      &btree.Map[string, *collection.Collection]{},
		mu:        &rwmutex{},
	}
	s.config = &Config{}
	s.pubq = pubQueue{cond: sync.NewCond(&sync.Mutex{})}
	s.monconns = make(map[net.Conn]bool)
	s.epool = newExprPool(s)
	s.luascripts = s.newScriptMap()
	s.luapool = s.newPool()
	s.pubsub = newPubsub()
	return s
}
