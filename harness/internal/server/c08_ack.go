package server

import (
	"errors"
	"net"
	"os"
	"strings"
	"sync"
	"time"
)

// C08: when a connection's success reply is handed to the socket, every byte that connection's command
// appended to the log has already been written to the log file - for every interleaving of concurrently
// writing connections (and the background flusher) through the pre-write block of the connection loop.
//
// The REAL connection closure of netServe runs as one interpreted thread per connection (entered directly,
// its captured variables bound by type), with the real handleInputCommand / handlers / writeAOF / flushAOF.
// The socket and the log file are models; the server lock is a blocking ghost lock.

// Visible operations (context-switch points): the lock operations and socket reads/writes announce
// themselves with vgate(op); the two atomics of the dirty flag are matched by name.
//verif:visible[c08] (*sync/atomic.Bool).Load
//verif:visible[c08] (*sync/atomic.Bool).Store
//verif:visible[c08] (*sync/atomic.Bool).CompareAndSwap
//verif:visible[c08] (*sync/atomic.Bool).Swap

// vhBLock: a readers-writer lock for interpreted threads (blocks by waiting for another thread's step).
type vhBLock struct {
	mu      sync.Mutex // only for the native replay, where the threads are real goroutines
	writer  bool
	readers int
}

func (l *vhBLock) Lock() {
	vgate("Lock")
	l.mu.Lock()
	for l.writer || l.readers > 0 {
		l.mu.Unlock()
		vwait()
		l.mu.Lock()
	}
	l.writer = true
	l.mu.Unlock()
}
func (l *vhBLock) LockLowPriority() { l.Lock() }
func (l *vhBLock) Unlock() {
	vgate("Unlock")
	l.mu.Lock()
	l.writer = false
	l.mu.Unlock()
}
func (l *vhBLock) RLock() {
	vgate("RLock")
	l.mu.Lock()
	for l.writer {
		l.mu.Unlock()
		vwait()
		l.mu.Lock()
	}
	l.readers++
	l.mu.Unlock()
}
func (l *vhBLock) RUnlock() {
	vgate("RUnlock")
	l.mu.Lock()
	l.readers--
	l.mu.Unlock()
}

// the log file model: bytes handed to the file so far
var vhLogFile []byte

//verif:replace[c08] (*os.File).Write => vmLogWrite
//verif:replace[c08] (*os.File).Sync => vmLogSync

func vmLogWrite(f *os.File, p []byte) (int, error) {
	vhLogFile = append(vhLogFile, p...)
	return len(p), nil
}
func vmLogSync(f *os.File) error { return nil }

type vhAddr struct{}

func (vhAddr) Network() string { return "tcp" }
func (vhAddr) String() string  { return "127.0.0.1:50000" }

// vhConn: a client socket that delivers the given packets, one per Read, then fails.
type vhConn struct {
	s       *Server
	packets [][]byte
	next    int
	marker  []string // what must be in the log file once the reply to packet i is written
	acked   int
	id      int
	closed  bool
	addr    string // remote address ("" = loopback)
	denied  bool   // the protected-mode refusal was written
	outs    []string // everything written to the socket, one entry per write
	afterFirst func() // runs when the second packet is requested (something another client did in between)
	stream  []byte // when set: a byte stream handed out as far as each read's buffer goes (instead of packets)
	spos    int
}

var vhNativeAckFailed bool

func vhLogContent(s *Server) string {
	if vnative() {
		b, _ := os.ReadFile(s.aof.Name())
		return string(b)
	}
	return string(vhLogFile)
}

func (c *vhConn) Read(p []byte) (int, error) {
	vgate("Read")
	if c.stream != nil {
		if c.spos >= len(c.stream) {
			return 0, errors.New("closed")
		}
		n := copy(p, c.stream[c.spos:])
		c.spos += n
		c.next++
		return n, nil
	}
	if c.next >= len(c.packets) {
		return 0, errors.New("closed")
	}
	if c.next == 1 && c.afterFirst != nil {
		c.afterFirst()
	}
	n := copy(p, c.packets[c.next])
	c.next++
	return n, nil
}

// Write is the moment the acknowledgement leaves the server.
func (c *vhConn) Write(p []byte) (int, error) {
	vgate("Write")
	c.outs = append(c.outs, string(p))
	if strings.HasPrefix(string(p), "-DENIED") {
		c.denied = true
		return len(p), nil
	}
	if c.marker == nil {
		c.acked++
		return len(p), nil
	}
	want := string(vhEncodeCmd(c.marker))
	ok := vhContains(vhLogContent(c.s), want)
	if vnative() && !ok {
		// the replay runs on server goroutines: record, the harness goroutine asserts
		vhNativeAckFailed = true
	} else {
		vassert("C08.acknowledged_write_is_in_the_log_file", ok)
	}
	c.acked++
	return len(p), nil
}
func (c *vhConn) Close() error {
	c.closed = true
	vthreadEnd()
	return nil
}
func (c *vhConn) LocalAddr() net.Addr { return vhAddr{} }

// RemoteAddr is the first thing the connection closure asks for: the replay learns here which
// goroutine serves which connection.
func (c *vhConn) RemoteAddr() net.Addr {
	vregisterThread(c.id)
	if c.addr != "" {
		return vhAddrS(c.addr)
	}
	return vhAddr{}
}

type vhAddrS string

func (a vhAddrS) Network() string { return "tcp" }
func (a vhAddrS) String() string  { return string(a) }
func (c *vhConn) SetDeadline(t time.Time) error      { return nil }
func (c *vhConn) SetReadDeadline(t time.Time) error  { return nil }
func (c *vhConn) SetWriteDeadline(t time.Time) error { return nil }

func vhEncodeCmd(args []string) []byte { return vhEncode(args...) }

func vhContains(s, sub string) bool {
	for i := 0; i+len(sub) <= len(s); i++ {
		if s[i:i+len(sub)] == sub {
			return true
		}
	}
	return false
}

func vhAckServer() *Server {
	s := vhServer()
	s.mu = &vhBLock{}
	if vnative() {
		f, err := os.CreateTemp("", "verif-ack-aof-*")
		if err != nil {
			panic(err)
		}
		s.aof = f
		vhNativeAckFailed = false
	} else {
		s.aof = new(os.File)
	}
	s.loadedAndReady.Store(true)
	s.luascripts = s.newScriptMap()
	s.luapool = s.newPool()
	vhLogFile = nil
	return s
}

func vhConnFor(s *Server, id int, cmd []string, logged []string) *vhConn {
	return &vhConn{s: s, id: id, packets: [][]byte{vhEncode(cmd...)}, marker: logged}
}

// VH_C08_one_connection: one connection, one write of each kind (plain command / script): sequential sanity.
//verif:cfg use=c08 b_connections=1 b_commands=SET|EVAL_with_a_write|EVALNA_with_a_write ignorego=1
func VH_C08_one_connection() {
	s := vhAckServer()
	var c *vhConn
	switch vchoose(3) {
	case 0:
		c = vhConnFor(s, 0, []string{"SET", "k", "a", "POINT", "1", "2"}, []string{"SET", "k", "a", "POINT", "1", "2"})
	case 1:
		c = vhConnFor(s, 0, []string{"EVAL", "return tile38.call('set','k','a','POINT',1,2)", "0"}, []string{"set", "k", "a", "POINT", "1", "2"})
	default:
		c = vhConnFor(s, 0, []string{"EVALNA", "return tile38.call('set','k','a','POINT',1,2)", "0"}, []string{"set", "k", "a", "POINT", "1", "2"})
	}
	vhServeConns(s, c)
	vassert("C08.reply_was_sent", c.acked == 1)
}

// VH_C08_two_connections: two connections write concurrently; every interleaving at the visible operations
// (lock, unlock, the atomics of the dirty flag, socket read/write).
//verif:cfg use=c08 b_connections=2 b_commands_each=1(SET_and_SET|PING|GET) quick.b_interleavings=all_with_at_most_4_context_switches thorough.b_interleavings=all_with_at_most_6_context_switches b_visible_operations=lock,unlock,atomic.Bool_load/store/compare-and-swap/swap,socket_read/write quick.maxswitches=4 thorough.maxswitches=6 ignorego=1 maxpaths=400000
func VH_C08_two_connections() {
	s := vhAckServer()
	a := vhConnFor(s, 0, []string{"SET", "k", "a", "POINT", "1", "2"}, []string{"SET", "k", "a", "POINT", "1", "2"})
	var b *vhConn
	switch vchoose(3) {
	case 0:
		b = vhConnFor(s, 1, []string{"SET", "k", "b", "POINT", "3", "4"}, []string{"SET", "k", "b", "POINT", "3", "4"})
	case 1:
		b = vhConnFor(s, 1, []string{"PING"}, nil) // a reply is pending although nothing was written
	default:
		b = vhConnFor(s, 1, []string{"GET", "k", "a"}, nil)
	}
	vhServeConns(s, a, b)
	vassert("C08.both_replies_sent", a.acked == 1 && b.acked == 1)
}

// VH_C08_with_flusher: one writing connection and one pass of the background flusher (the real closure of
// backgroundSyncAOF): whatever the flusher does to the buffer and the dirty flag, and however it interleaves
// with the connection's pre-write block, the acknowledgement leaves after the bytes are in the file.
//verif:cfg use=c08 b_threads=1_connection(SET)+the_background_flusher(one_pass) quick.maxswitches=4 thorough.maxswitches=8 b_visible_operations=lock,unlock,atomic.Bool_load/store/compare-and-swap/swap,socket_read/write ignorego=1 maxpaths=400000
func VH_C08_with_flusher() {
	s := vhAckServer()
	a := vhConnFor(s, 0, []string{"SET", "k", "a", "POINT", "1", "2"}, []string{"SET", "k", "a", "POINT", "1", "2"})
	vhFlusher = true
	vhServeConns(s, a)
	vhFlusher = false
	vassert("C08.reply_was_sent", a.acked == 1)
}

var vhFlusher bool

// vhServeConns runs the connection closure of netServe for each connection: as interpreted threads in the
// engine; natively through the real netServe accept loop (fake listener), forced through the schedule.
func vhServeConns(s *Server, conns ...*vhConn) {
	if vnative() {
		vhNativeServe(s, conns)
		vassert("C08.acknowledged_write_is_in_the_log_file", !vhNativeAckFailed)
		return
	}
	if len(conns) == 1 && !vhFlusher {
		vcallAnon("(*Server).netServe", s, net.Conn(conns[0]))
		return
	}
	for _, c := range conns {
		c := c
		vspawn(func() { vcallAnon("(*Server).netServe", s, net.Conn(c)) })
	}
	if vhFlusher {
		// one pass of the once-a-second flusher: the closure backgroundSyncAOF hands to its loop
		vspawn(func() { vcallAnon("(*Server).backgroundSyncAOF", s) })
	}
	vrunThreads()
}
