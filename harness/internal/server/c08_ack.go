package server

import (
	"errors"
	"net"
	"os"
	"time"
)

// C08: when a connection's success reply is handed to the socket, every byte that connection's command
// appended to the log has already been written to the log file - for every interleaving of concurrently
// writing connections (and the background flusher) through the pre-write block of the connection loop.
//
// The REAL connection closure of netServe runs as one interpreted thread per connection (entered directly,
// its captured variables bound by type), with the real handleInputCommand / handlers / writeAOF / flushAOF.
// The socket and the log file are models; the server lock is a blocking ghost lock.

//verif:visible (*github.com/tidwall/tile38/internal/server.vhBLock).Lock
//verif:visible (*github.com/tidwall/tile38/internal/server.vhBLock).Unlock
//verif:visible (*github.com/tidwall/tile38/internal/server.vhBLock).RLock
//verif:visible (*github.com/tidwall/tile38/internal/server.vhBLock).RUnlock
//verif:visible (*github.com/tidwall/tile38/internal/server.vhConn).Write
//verif:visible (*github.com/tidwall/tile38/internal/server.vhConn).Read
//verif:visible (*sync/atomic.Bool).Load
//verif:visible (*sync/atomic.Bool).Store

// vhBLock: a readers-writer lock for interpreted threads (blocks by waiting for another thread's step).
type vhBLock struct {
	writer  bool
	readers int
}

func (l *vhBLock) Lock() {
	for l.writer || l.readers > 0 {
		vwait()
	}
	l.writer = true
}
func (l *vhBLock) LockLowPriority() { l.Lock() }
func (l *vhBLock) Unlock()          { l.writer = false }
func (l *vhBLock) RLock() {
	for l.writer {
		vwait()
	}
	l.readers++
}
func (l *vhBLock) RUnlock() { l.readers-- }

// the log file model: bytes handed to the file so far
var vhLogFile []byte

//verif:replace[c08] (*os.File).Write => vmLogWrite
//verif:replace[c08] (*os.File).Sync => vmLogSync

func vmLogWrite(f *os.File, p []byte) (int, error) {
	vhLogFile = append(vhLogFile, p...)
	return len(p), nil
}
func vmLogSync(f *os.File) error { return nil }

type vhAddr struct{}

func (vhAddr) Network() string { return "tcp" }
func (vhAddr) String() string  { return "127.0.0.1:50000" }

// vhConn: a client socket that delivers the given packets, one per Read, then fails.
type vhConn struct {
	s       *Server
	packets [][]byte
	next    int
	marker  []string // what must be in the log file once the reply to packet i is written
	acked   int
	id      int
}

func (c *vhConn) Read(p []byte) (int, error) {
	if c.next >= len(c.packets) {
		return 0, errors.New("closed")
	}
	n := copy(p, c.packets[c.next])
	c.next++
	return n, nil
}

// Write is the moment the acknowledgement leaves the server.
func (c *vhConn) Write(p []byte) (int, error) {
	want := string(vhEncodeCmd(c.marker))
	vassert("C08.acknowledged_write_is_in_the_log_file", vhContains(string(vhLogFile), want))
	c.acked++
	return len(p), nil
}
func (c *vhConn) Close() error                       { return nil }
func (c *vhConn) LocalAddr() net.Addr                { return vhAddr{} }
func (c *vhConn) RemoteAddr() net.Addr               { return vhAddr{} }
func (c *vhConn) SetDeadline(t time.Time) error      { return nil }
func (c *vhConn) SetReadDeadline(t time.Time) error  { return nil }
func (c *vhConn) SetWriteDeadline(t time.Time) error { return nil }

func vhEncodeCmd(args []string) []byte { return vhEncode(args...) }

func vhContains(s, sub string) bool {
	for i := 0; i+len(sub) <= len(s); i++ {
		if s[i:i+len(sub)] == sub {
			return true
		}
	}
	return false
}

func vhAckServer() *Server {
	s := vhServer()
	s.mu = &vhBLock{}
	s.aof = new(os.File)
	s.loadedAndReady.Store(true)
	s.luascripts = s.newScriptMap()
	s.luapool = s.newPool()
	vhLogFile = nil
	return s
}

func vhConnFor(s *Server, id int, cmd []string, logged []string) *vhConn {
	return &vhConn{s: s, id: id, packets: [][]byte{vhEncode(cmd...)}, marker: logged}
}

// VH_C08_one_connection: one connection, one write of each kind (plain command / script): sequential sanity.
//verif:cfg use=c08 b_connections=1 b_commands=SET|EVAL_with_a_write|EVALNA_with_a_write ignorego=1
func VH_C08_one_connection() {
	s := vhAckServer()
	var c *vhConn
	switch vchoose(3) {
	case 0:
		c = vhConnFor(s, 0, []string{"SET", "k", "a", "POINT", "1", "2"}, []string{"SET", "k", "a", "POINT", "1", "2"})
	case 1:
		c = vhConnFor(s, 0, []string{"EVAL", "return tile38.call('set','k','a','POINT',1,2)", "0"}, []string{"set", "k", "a", "POINT", "1", "2"})
	default:
		c = vhConnFor(s, 0, []string{"EVALNA", "return tile38.call('set','k','a','POINT',1,2)", "0"}, []string{"set", "k", "a", "POINT", "1", "2"})
	}
	vcallAnon("(*Server).netServe", s, net.Conn(c))
	vassert("C08.reply_was_sent", c.acked == 1)
}

// VH_C08_two_connections: two connections write concurrently; every interleaving at the visible operations
// (lock, unlock, the atomics of the dirty flag, socket read/write).
//verif:cfg use=c08 b_connections=2 b_commands_each=1 quick.b_interleavings=all_with_at_most_4_context_switches thorough.b_interleavings=all_with_at_most_6_context_switches b_visible_operations=lock,unlock,atomic.Bool_load/store,socket_read/write quick.maxswitches=4 thorough.maxswitches=6 ignorego=1 maxpaths=400000
func VH_C08_two_connections() {
	s := vhAckServer()
	a := vhConnFor(s, 0, []string{"SET", "k", "a", "POINT", "1", "2"}, []string{"SET", "k", "a", "POINT", "1", "2"})
	b := vhConnFor(s, 1, []string{"SET", "k", "b", "POINT", "3", "4"}, []string{"SET", "k", "b", "POINT", "3", "4"})
	vspawn(func() { vcallAnon("(*Server).netServe", s, net.Conn(a)) })
	vspawn(func() { vcallAnon("(*Server).netServe", s, net.Conn(b)) })
	vrunThreads()
	vobs("schedule", vschedule())
	vassert("C08.both_replies_sent", a.acked == 1 && b.acked == 1)
}
