package server

import (
	"errors"
	"os"
)

// C06-K2: a follower never reports caught-up (HEALTHZ ok, caught_up true) while it still lacks commands the
// leader had acknowledged before the follower's last (re)connect. The REAL followStep runs against a stub
// leader: dial, SERVER, the checksum comparison, REPLCONF, AOF and the command stream are stub interactions,
// and each of them is an instant at which another client's HEALTHZ can be served - the invariant
//        caughtUp()  =>  the follower has applied every command the leader had at the connect
// is asserted at every one of them, and once more after followStep has returned.
//
// The stub functions replace the network leaves by name in the engine; the native replay compiles follow.go
// with the same call sites redirected textually (native_patch.json), so the same stubs run under the real
// followStep, followHandleCommand, handlers and log writer.

//verif:replace[c06b] (*github.com/tidwall/tile38/internal/server.Server).followCheckSome => vhC06bCheckSome

// the follower's log is an intact prefix of the leader's (C06-K1 decides the other cases): resume at its end
func vhC06bCheckSome(s *Server, addr string, followc int, auth string) (int64, error) {
	if !vh06b.active || vh06b.realCheckSome {
		return s.followCheckSome(addr, followc, auth)
	}
	if vhC06bFail(2) {
		return 0, errors.New("connection reset")
	}
	return int64(s.aofsz), nil
}

//verif:cfg use=c06b,c08 b_leader_log=0..4_commands b_follower_has=a_prefix_of_it_(0..2_commands) b_earlier_session=caught_up_before_or_not b_connection_fails_at=dial|SERVER|checksum|REPLCONF|AOF|after_each_streamed_command|never b_observations=every_leader_interaction_and_after_the_step ignorego=1
func VH_C06_reconnect() {
	s := vhServer()
	s.mu = &vhLock{s: s, noSnap: true}
	if vnative() {
		f, err := os.CreateTemp("", "verif-follow-aof-*")
		if err != nil {
			panic(err)
		}
		s.aof = f
	} else {
		s.aof = new(os.File)
		vhLogFile = nil
	}
	s.config._followHost, s.config._followPort = "leader", 9851
	have := vchoose(3)
	more := vchoose(3)
	var cmds [][]string
	for i := 0; i < have+more; i++ {
		cmds = append(cmds, []string{"SET", "k", "id" + vhDigits[i], "STRING", "v" + vhDigits[i]})
	}
	// the earlier session: the follower applied and logged the first `have` commands
	for i := 0; i < have; i++ {
		_, d, _ := vhDo(s, cmds[i]...)
		s.writeAOF(cmds[i], &d)
	}
	s.flushAOF(false)
	if vnondetBool() {
		s.setCaughtUp(true) // it had caught up with the leader as it was then
		vreach("was-caught-up")
	}
	vh06b.active, vh06b.s, vh06b.cmds, vh06b.have, vh06b.sent = true, s, cmds, have, 0
	vh06b.violated, vh06b.observed, vh06b.stage = false, 0, -1
	vh06b.supersedeAt, vh06b.onSupersede, vh06b.realCheckSome = -1, nil, false
	vh06b.leaderLen = vhC06bLogLen(cmds)
	vh06b.failAt = vchoose(5+more+1) - 1 // -1 = the stream just ends (connection lost after the last command)
	err := s.followStep("leader", 9851, 0)
	vhC06bObserve()
	vh06b.active = false
	vobs("reconnect", have, more, vh06b.failAt, vh06b.stage, s.caughtUp(), err != nil)
	vassert("C06.K2.step_ends_when_the_connection_does", err != nil)
	vassert("C06.K2.observed", vh06b.observed >= 2)
	vassert("C06.K2.never_caught_up_while_lacking_acknowledged_commands", !vh06b.violated)
	if vh06b.stage >= 5 && vh06b.sent == more {
		vassert("C06.K2.caught_up_once_everything_is_applied", s.caughtUp())
		vreach("caught-up")
	}
	if vnative() {
		name := s.aof.Name()
		s.aof.Close()
		os.Remove(name)
	}
}
