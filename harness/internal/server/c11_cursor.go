package server

import (
	"github.com/tidwall/resp"
)

// C11: paging any query with the returned cursor yields exactly the unlimited sequence.
// Real command handlers over the real collection (btree / rtree); ids and MATCH patterns symbolic.

func vhIDsOf(v resp.Value) (cursor int, ids []string) {
	arr := v.Array()
	if len(arr) != 2 {
		return -1, nil
	}
	cursor = arr[0].Integer()
	for _, e := range arr[1].Array() {
		ids = append(ids, e.String())
	}
	return cursor, ids
}

var vhDigits = [12]string{"0", "1", "2", "3", "4", "5", "6", "7", "8", "9", "10", "11"}

func vhSameIDs(a, b []string) bool {
	if len(a) != len(b) {
		return false
	}
	eq := true
	for i := range a {
		eq = vand(eq, a[i] == b[i])
	}
	return eq
}

// vhQuery builds the argument vector of query kind q on key k (without CURSOR/LIMIT).
func vhQuery(q int, tail []string) []string {
	var head, area []string
	switch q {
	case 0:
		head = []string{"SCAN", "k"}
	case 1:
		head = []string{"SCAN", "k", "DESC"}
	case 2:
		head, area = []string{"WITHIN", "k"}, []string{"IDS", "BOUNDS", "-10", "-10", "10", "10"}
	case 3:
		head, area = []string{"INTERSECTS", "k"}, []string{"IDS", "BOUNDS", "-10", "-10", "10", "10"}
	case 4:
		head, area = []string{"NEARBY", "k"}, []string{"IDS", "POINT", "0", "0"}
	case 5:
		head = []string{"SEARCH", "k"}
	case 6:
		head = []string{"SEARCH", "k", "DESC"}
	default:
		head, area = []string{"INTERSECTS", "k", "SPARSE", "1"}, []string{"IDS", "BOUNDS", "-10", "-10", "10", "10"}
	}
	args := append([]string(nil), head...)
	args = append(args, tail...)
	if area == nil {
		args = append(args, "IDS")
	} else {
		args = append(args, area...)
	}
	return args
}

func vhPageThrough(s *Server, q int, filter []string, limit int, n int) ([]string, bool) {
	var all []string
	cursor := 0
	for page := 0; page < n+6; page++ {
		tail := append([]string{"CURSOR", vhDigits[cursor], "LIMIT", vhDigits[limit]}, filter...)
		res, _, err := vhDo(s, vhQuery(q, tail)...)
		if err != nil {
			return nil, false
		}
		c, ids := vhIDsOf(res)
		if c < 0 || c >= len(vhDigits) {
			return nil, false
		}
		all = append(all, ids...)
		if c == 0 {
			return all, true
		}
		vassert("C11.nonzero_cursor_advances", c > cursor)
		cursor = c
	}
	return all, false // never reached a 0 cursor
}

// vhPaging runs one paging experiment for query kind q.
func vhPaging(q int, n int, symbolicIDs bool, filterKinds []int) {
	s := vhServer()
	ids := make([]string, n)
	for i := 0; i < n; i++ {
		if symbolicIDs && (q == 5 || q == 6) {
			// SEARCH values: a symbolic byte and a distinguishing suffix, so that several values can share a prefix
			ids[i] = vnondetStringN(1) + vhDigits[i]
		} else if symbolicIDs {
			ids[i] = vnondetStringN(1)
			for j := 0; j < i; j++ {
				vassume(ids[i] != ids[j])
			}
		} else {
			ids[i] = string(rune('a' + i))
		}
		if q == 5 || q == 6 {
			// SEARCH iterates string values: the byte is the value, ids are fixed
			vhDo(s, "SET", "k", vhDigits[i], "FIELD", "f", vhDigits[i], "STRING", ids[i])
		} else if q == 4 && i < 3 {
			// NEARBY: several objects at exactly the same distance, written in an order that is not the id order
			id := [3]string{"c", "a", "b"}[i]
			ids[i] = id
			vhDo(s, "SET", "k", id, "FIELD", "f", vhDigits[i], "POINT", "3", "3")
		} else if i%2 == 0 || q >= 2 {
			vhDo(s, "SET", "k", ids[i], "FIELD", "f", vhDigits[i], "POINT", vhDigits[i], vhDigits[i+1])
		} else {
			vhDo(s, "SET", "k", ids[i], "FIELD", "f", vhDigits[i], "STRING", "v")
		}
	}
	if q == 5 || q == 6 {
		// geometries next to the strings: SEARCH must page over the strings only
		for g := vchoose(3); g > 0; g-- {
			vhDo(s, "SET", "k", "g"+vhDigits[g], "POINT", vhDigits[g], vhDigits[g])
		}
	}
	if (q >= 2 && q <= 4) || q == 7 {
		// objects whose bounding box straddles the edge of the search area: candidates that the exact predicate
		// of WITHIN rejects, visited between the accepted ones
		vhDo(s, "SET", "k", "r1", "BOUNDS", "0.5", "0.5", "20", "20")
		vhDo(s, "SET", "k", "r2", "BOUNDS", "-20", "-20", "1.5", "1.5")
	}
	var filter []string
	switch filterKinds[vchoose(len(filterKinds))] {
	case 1:
		filter = []string{"MATCH", vnondetStringN(1) + "*"}
	case 2:
		// several MATCH clauses are OR-ed; literal first, glob second
		filter = []string{"MATCH", ids[0], "MATCH", vnondetStringN(1) + "*"}
	case 3:
		filter = []string{"MATCH", vnondetString(2)}
	case 4:
		filter = []string{"WHERE", "f", "1", "2"}
	case 5:
		filter = []string{"WHEREIN", "f", "2", "0", "2"}
	case 6:
		filter = []string{"WHERE", "f", "0", "1", "MATCH", vnondetStringN(1) + "*"}
	}
	limit := 1 + vchoose(n+1)

	res, _, err := vhDo(s, vhQuery(q, append([]string{"LIMIT", "11"}, filter...))...)
	if err != nil {
		vreach("query-rejected")
		return
	}
	c0, want := vhIDsOf(res)
	vassert("C11.unlimited_ends_with_zero_cursor", c0 == 0)
	got, ended := vhPageThrough(s, q, filter, limit, n)
	vassert("C11.paging_terminates_with_zero_cursor", ended)
	vassert("C11.pages_concatenate_to_unlimited", vhSameIDs(got, want))
	vobs("paged", q, limit, len(want))
}

//verif:cfg quick.b_objects=3 thorough.b_objects=4 b_ids=1_symbolic_byte_each quick.b_filter=none|MATCH_X*|MATCH_literal+X*|WHERE_range|WHEREIN thorough.b_filter=+MATCH_0..2_symbolic_bytes|WHERE+MATCH b_limit=1..n+1 b_queries=SCAN,SCAN_DESC
func VH_C11_paging_scan() {
	n, fk := 3, []int{0, 1, 2, 4, 5}
	if vthorough() {
		n, fk = 4, []int{0, 1, 2, 3, 4, 5, 6}
	}
	vhPaging(vchoose(2), n, true, fk)
}

//verif:cfg quick.b_objects=3 thorough.b_objects=4 b_ids=concrete b_filter=none|MATCH_X*|MATCH_literal+X*|WHERE_range|WHEREIN b_limit=1..n+1 b_queries=WITHIN,INTERSECTS,NEARBY(three_objects_at_the_same_distance),INTERSECTS_SPARSE_1
func VH_C11_paging_spatial() {
	n := 3
	if vthorough() {
		n = 4
	}
	q := 2 + vchoose(4)
	if q == 5 {
		q = 7 // INTERSECTS ... SPARSE 1
	}
	vhPaging(q, n, false, []int{0, 1, 2, 4, 5})
}

//verif:cfg quick.b_objects=3 thorough.b_objects=4 b_values=1_symbolic_byte+a_suffix_each(prefixes_may_coincide) b_other_objects=0..2_geometries_in_the_same_collection b_filter=none|MATCH_X*|WHERE_range|WHEREIN b_limit=1..n+1 b_queries=SEARCH,SEARCH_DESC
func VH_C11_paging_search() {
	n := 3
	if vthorough() {
		n = 4
	}
	vhPaging(5+vchoose(2), n, true, []int{0, 1, 4, 5})
}
