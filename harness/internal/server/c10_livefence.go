package server

import (
	"errors"
	"net"
	"strings"
	"sync"
	"time"

	"github.com/tidwall/gjson"
	"github.com/tidwall/sjson"
)

// C10 / C05 (live geofence connections, socket level): the REAL goLive (with its reader goroutine) and the REAL
// processLives run as interpreted threads next to a client whose writes go through the real handleInputCommand /
// writeAOF. What the live connection's socket receives must be exactly what a channel with the same fence is
// sent for the same writes - the same notifications, each once, in write order - whatever the interleaving of
// the three goroutines (within the switch bound), including writes that are queued while an earlier one is still
// being evaluated, and objects positioned before the connection went live.

//verif:replace[c10f] (*sync.Cond).Wait => vmSubCondWait
//verif:replace[c10f] (*sync.Cond).Broadcast => vmSubCondBroadcast
//verif:replace[c10f] time.Sleep => vmTickerSleep

// the quarter-second ticker goroutine of processLives only re-broadcasts; it ends at its first sleep
func vmTickerSleep(d time.Duration) { vexitThread() }

// vhRealLock: the server lock as a plain readers-writer mutex. In the engine its operations are no-ops: threads
// switch only at socket operations, condition waits and between client commands, never inside a locked section.
type vhRealLock struct{ mu sync.RWMutex }

func (l *vhRealLock) Lock()            { l.mu.Lock() }
func (l *vhRealLock) LockLowPriority() { l.mu.Lock() }
func (l *vhRealLock) Unlock()          { l.mu.Unlock() }
func (l *vhRealLock) RLock()           { l.mu.RLock() }
func (l *vhRealLock) RUnlock()         { l.mu.RUnlock() }

type vhLiveFenceConn struct {
	mu       sync.Mutex
	greeted  bool
	msgs     []string
	closed   bool
	closedCh chan struct{}
	once     sync.Once
}

func (c *vhLiveFenceConn) Read(p []byte) (int, error) {
	if vnative() {
		<-c.closedCh
		return 0, errors.New("closed")
	}
	vblockUntil(func() bool { return c.closed })
	return 0, errors.New("closed")
}
func (c *vhLiveFenceConn) Write(p []byte) (int, error) {
	vgate("Write")
	c.mu.Lock()
	defer c.mu.Unlock()
	s := string(p)
	if !c.greeted {
		c.greeted = true
		return len(p), nil
	}
	c.msgs = append(c.msgs, vhStripBulk(s))
	return len(p), nil
}
func (c *vhLiveFenceConn) Close() error {
	c.mu.Lock()
	c.closed = true
	c.mu.Unlock()
	c.once.Do(func() { close(c.closedCh) })
	return nil
}
func (c *vhLiveFenceConn) LocalAddr() net.Addr                { return vhAddr{} }
func (c *vhLiveFenceConn) RemoteAddr() net.Addr               { return vhAddr{} }
func (c *vhLiveFenceConn) SetDeadline(t time.Time) error      { return nil }
func (c *vhLiveFenceConn) SetReadDeadline(t time.Time) error  { return nil }
func (c *vhLiveFenceConn) SetWriteDeadline(t time.Time) error { return nil }
func (c *vhLiveFenceConn) state() (bool, int) {
	c.mu.Lock()
	defer c.mu.Unlock()
	return c.greeted, len(c.msgs)
}

// vhFenceMsgCore: a notification without the members that differ by construction (the hook's name, the clock)
func vhFenceMsgCore(m string) string {
	m, _ = sjson.Delete(m, "hook")
	m, _ = sjson.Delete(m, "time")
	// the group id is not part of what the property promises: a live connection evaluates a write after later
	// writes may have been applied (a DEL drops the object's groups), so a late 'inside' can open a new group
	m, _ = sjson.Delete(m, "group")
	return m
}

// vhRenumberGroups: group ids are fresh per receiver; what has to agree is which notifications share one
func vhRenumberGroups(msgs []string) []string {
	var seen []string
	out := make([]string, len(msgs))
	for i, m := range msgs {
		g := gjson.Get(m, "group").String()
		if g == "" {
			out[i] = m
			continue
		}
		k := -1
		for j, x := range seen {
			if x == g {
				k = j
			}
		}
		if k < 0 {
			seen = append(seen, g)
			k = len(seen) - 1
		}
		out[i], _ = sjson.Set(m, "group", "g"+vhDigits[k])
	}
	return out
}

var vhLiveFenceCmds = [][]string{
	{"SET", "fleet", "car", "POINT", "5", "5"},
	{"SET", "fleet", "car", "POINT", "20", "20"},
	{"SET", "fleet", "car", "FIELD", "speed", "7", "POINT", "6", "6"},
	{"FSET", "fleet", "car", "speed", "9"},
	{"DEL", "fleet", "car"},
	{"SET", "fleet", "van", "POINT", "4", "4"},
	{"SET", "fleet", "car", "POINT", "-5", "5"}, // from 20,20: crosses nothing; from 5,5: leaves to the west
	{"SET", "other", "car", "POINT", "5", "5"},  // another collection: no notification
}

//verif:cfg use=c10f b_setup=none|car_inside|car_outside_(before_the_connection_goes_live) b_client_writes=quick:2|thorough:3_of_8_(SET_inside/outside/with_FIELD,FSET,DEL,second_object,other_collection) b_fence=WITHIN_BOUNDS_0_0_10_10 b_output=JSON_messages b_threads=goLive+its_reader+processLives+client eagerstart=1 quick.maxpreempt=2 thorough.maxpreempt=1 b_interleavings=all_with_at_most_2_(quick:_2_writes)|1_(thorough:_3_writes)_preemptive_context_switches;_switches_forced_by_blocking_are_not_counted;_a_new_goroutine_runs_to_its_first_visible_operation_when_it_is_spawned maxpaths=400000 maxsteps=40000000
func VH_C10_live_fence() {
	s := vhServer()
	vhSubConds = nil
	s.loadedAndReady.Store(true)
	s.mu = &vhRealLock{}
	s.aof = nil // no log needed: writeAOF still evaluates the hooks and queues the write for live fences
	// the reference receiver: a channel with the same fence
	_, _, err := vhDo(s, "SETCHAN", "watch", "WITHIN", "fleet", "FENCE", "BOUNDS", "0", "0", "10", "10")
	vassert("C10.F.channel_created", err == nil)
	ref := newSubtarget()
	s.pubsub.register(pubsubChannel, "watch", ref)
	do := func(args []string) {
		cl := &Client{}
		s.handleInputCommand(cl, &Message{Args: args, ConnType: RESP, OutputType: RESP})
	}
	switch vchoose(3) {
	case 1:
		do(vhLiveFenceCmds[0])
	case 2:
		do(vhLiveFenceCmds[1])
	}
	before := len(ref.msgs)
	msg := &Message{Args: []string{"WITHIN", "fleet", "FENCE", "BOUNDS", "0", "0", "10", "10"}, ConnType: RESP, OutputType: JSON}
	lfs, err := s.cmdSearchArgs(true, "within", msg.Args[1:], withinOrIntersectsTypes)
	vassert("C10.F.fence_parses", err == nil)
	lfs.cmd = "within"
	conn := &vhLiveFenceConn{closedCh: make(chan struct{})}
	rd := NewPipelineReader(conn)
	nw := 2
	if vthorough() {
		nw = 3
	}
	var cmds [][]string
	for i := 0; i < nw; i++ {
		cmds = append(cmds, vhLiveFenceCmds[vchoose(len(vhLiveFenceCmds))])
	}
	owed := func() int {
		ref.cond.L.Lock()
		defer ref.cond.L.Unlock()
		return len(ref.msgs) - before
	}
	client := func() {
		// the connection is live once its greeting has been written
		vblockUntil(func() bool { g, _ := conn.state(); return g })
		for _, c := range cmds {
			vgate("cmd")
			do(c)
		}
		// a healthy receiver stays until it has been sent what it is owed, then hangs up
		vblockUntil(func() bool { _, n := conn.state(); return n >= owed() })
		conn.Close()
		s.stopServer.Store(true)
		s.lcond.L.Lock()
		s.lcond.Broadcast()
		s.lcond.L.Unlock()
	}
	var lerr error
	var wg sync.WaitGroup
	wg.Add(1)
	if vnative() {
		vhFreeSchedule()
		done := make(chan struct{})
		go s.processLives(&wg)
		go func() {
			lerr = s.goLive(lfs, conn, rd, msg, false)
			close(done)
		}()
		client()
		select {
		case <-done:
		case <-time.After(5 * time.Second):
		}
		wg.Wait()
		time.Sleep(10 * time.Millisecond)
	} else {
		vspawn(func() { lerr = s.goLive(lfs, conn, rd, msg, false) })
		vspawn(func() { s.processLives(&wg) })
		vspawn(client)
		vrunThreads()
	}
	conn.mu.Lock()
	defer conn.mu.Unlock()
	var want, got []string
	for _, m := range ref.msgs[before:] {
		want = append(want, vhFenceMsgCore(m.message))
	}
	for _, m := range conn.msgs {
		got = append(got, vhFenceMsgCore(m))
	}
	if len(want) > 0 {
		vreach("live-fence-owed-a-notification")
	}
	if len(want) > 1 {
		vreach("live-fence-owed-several-notifications")
	}
	vassert("C10.F.live_connection_gets_exactly_the_channels_notifications_in_write_order", strings.Join(got, "\n") == strings.Join(want, "\n"))
	vassert("C10.F.connection_ends_cleanly", lerr == nil && len(s.lives) == 0)
	vobs("livefence", len(want), strings.Join(got, "|"))
}
