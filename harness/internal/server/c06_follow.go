package server

import (
	"io"
	"os"
	"time"
)

// C06-K1: where a (re)connecting follower resumes. followCheckSome compares 512 KiB windows of the local log
// with the leader's and must come back with a position pos such that the local log is exactly the leader's
// first pos bytes, the file is cut to pos, the size counter is pos and memory is the replay of those bytes -
// whatever the follower held before (nothing, a true prefix, unrelated data).
//
// Engine: the two logs are abstracted by their lengths F (follower), L (leader) and P (length of their common
// prefix), all symbolic; "equal checksum" = "window lies inside the common prefix"; logs consist of 64-byte
// commands. Native replay: real logs of those lengths, a stub leader answering AOFMD5 over TCP, real files, real md5.

//verif:replace[c06] github.com/tidwall/tile38/internal/server.DialTimeout => vmC06Dial
//verif:replace[c06] (*github.com/tidwall/tile38/internal/server.RESPConn).Close => vmC06ConnClose
//verif:replace[c06] (*github.com/tidwall/tile38/internal/server.Server).matchChecksums => vmC06Match
//verif:replace[c06] github.com/tidwall/tile38/internal/server.getEndOfLastValuePositionInFile => vmC06EndOfLast
//verif:replace[c06] os.Create => vmC06Create
//verif:replace[c06] os.Truncate => vmC06Truncate
//verif:replace[c06] os.OpenFile => vmC06OpenFile
//verif:replace[c06] (*os.File).Close => vmC06FileClose
//verif:replace[c06] (*os.File).Name => vmC06FileName
//verif:replace[c06] (*github.com/tidwall/tile38/internal/server.Server).loadAOF => vmC06LoadAOF

const vhCmdLen = 64 // every command of the generated logs is 64 bytes long

var vh06 struct {
	F, L, P  int64 // follower length, leader length, common prefix
	Q        int64 // the logs agree again from offset Q on (Q = min(F,L): never)
	fileLen  int64 // current length of the follower's file
	loaded   int64 // bytes replayed by the last (modelled) loadAOF
	addr     string
}

func vmC06Dial(address string, timeout time.Duration) (*RESPConn, error) { return &RESPConn{}, nil }
func vmC06ConnClose(c *RESPConn) error                                   { return nil }

// equal MD5 iff equal bytes: a window matches iff it lies inside both logs and inside their common prefix
func vmC06Match(s *Server, conn *RESPConn, pos, size int64) (bool, error) {
	if pos+size > int64(s.aofsz) || pos+size > vh06.L {
		return false, nil
	}
	return pos+size <= vh06.P || pos >= vh06.Q, nil
}

// the real function scans backwards from startPos for the last command that ends at or before startPos and
// returns that end (the file holds whole 64-byte commands); io.EOF when there is none
func vmC06EndOfLast(fname string, startPos int64) (int64, error) {
	b := startPos / vhCmdLen * vhCmdLen
	if b <= 0 {
		return 0, io.EOF
	}
	return b, nil
}
func vmC06Create(name string) (*os.File, error) {
	vh06.fileLen = 0
	return new(os.File), nil
}
func vmC06Truncate(name string, size int64) error {
	vh06.fileLen = size
	return nil
}
func vmC06OpenFile(name string, flag int, perm os.FileMode) (*os.File, error) {
	return new(os.File), nil
}
func vmC06FileClose(f *os.File) error { return nil }
func vmC06FileName(f *os.File) string { return "appendonly.aof" }
func vmC06LoadAOF(s *Server) error {
	s.aofsz = int(vh06.fileLen)
	vh06.loaded = vh06.fileLen
	vhDo(s, "SET", "loaded", "x", "STRING", "x")
	return nil
}

//verif:cfg use=c06 quick.b_windows=4 thorough.b_windows=16 b_logs=whole_64-byte_commands b_common_prefix=any b_reconvergence=the_logs_may_agree_again_from_any_command_boundary_behind_the_differing_region ignorego=1
func VH_C06_resume_position() {
	const W = 512 * 1024
	maxw := int64(4)
	if vthorough() {
		maxw = 16
	}
	F, L, P := vnondetInt64(), vnondetInt64(), vnondetInt64()
	vassume(F >= 0 && F <= maxw*W && F%vhCmdLen == 0)
	vassume(L >= 0 && L <= maxw*W && L%vhCmdLen == 0)
	vassume(P >= 0 && P <= F && P <= L)
	// the first differing byte is a value byte of a command (offset 51..61), or one log is a prefix of the other
	off := P % vhCmdLen
	vassume((off >= 51 && off < 62) || P == F || P == L)
	// the logs may agree again behind the differing region (an equal-length divergence): from offset Q on
	Q := vnondetInt64()
	minFL := F
	if L < minFL {
		minFL = L
	}
	vassume(Q >= P && Q <= minFL && Q%vhCmdLen == 0)
	vassume(Q > P || P == minFL)
	vh06.F, vh06.L, vh06.P, vh06.Q = F, L, P, Q
	vh06.fileLen, vh06.loaded = F, 0

	s := vhFollower(F, L, P, Q)
	pos, err := s.followCheckSome(vh06.addr, 0, "")
	vobs("resume", F, L, P, Q, pos, err != nil)
	if err != nil {
		vreach("error-return")
		vhFollowerDone(s)
		return
	}
	// known finding: only some windows are compared ("check some"); when the head window agrees and the logs
	// agree again behind a differing region, a probe behind that region is taken for the whole prefix
	kfProbe := vknown("C06-unprobed-window-divergence") && P >= W && Q < minFL
	vassertK("C06.K1.kept_bytes_equal_leaders", vhKeptIsLeaderPrefix(s, pos), kfProbe, "C06-unprobed-window-divergence")
	vassert("C06.K1.file_cut_to_position", vhFollowerFileLen(s) == pos)
	vassert("C06.K1.size_counter_is_position", int64(s.aofsz) == pos)
	vassert("C06.K1.memory_is_replay_of_kept_bytes", vhMemoryIsReplayOf(s, pos))
	vhFollowerDone(s)
}
