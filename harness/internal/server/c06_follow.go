package server

import (
	"io"
	"os"
	"time"
)

// C06-K1: where a (re)connecting follower resumes. followCheckSome compares 512 KiB windows of the local log
// with the leader's and must come back with a position pos such that the local log is exactly the leader's
// first pos bytes, the file is cut to pos, the size counter is pos and memory is the replay of those bytes -
// whatever the follower held before (nothing, a true prefix, unrelated data).
//
// Engine: the two logs are abstracted by their lengths F (follower), L (leader) and P (length of their common
// prefix), all symbolic; "equal checksum" = "window lies inside the common prefix"; logs consist of 64-byte
// commands. Native replay: real logs of those lengths, a stub leader answering AOFMD5 over TCP, real files, real md5.

//verif:replace[c06] github.com/tidwall/tile38/internal/server.DialTimeout => vmC06Dial
//verif:replace[c06] (*github.com/tidwall/tile38/internal/server.RESPConn).Close => vmC06ConnClose
//verif:replace[c06] (*github.com/tidwall/tile38/internal/server.Server).matchChecksums => vmC06Match
//verif:replace[c06] github.com/tidwall/tile38/internal/server.getEndOfLastValuePositionInFile => vmC06EndOfLast
//verif:replace[c06] os.Create => vmC06Create
//verif:replace[c06] os.Truncate => vmC06Truncate
//verif:replace[c06] os.OpenFile => vmC06OpenFile
//verif:replace[c06] (*os.File).Close => vmC06FileClose
//verif:replace[c06] (*os.File).Name => vmC06FileName
//verif:replace[c06] (*github.com/tidwall/tile38/internal/server.Server).loadAOF => vmC06LoadAOF

const vhCmdLen = 64 // every command of the generated logs is 64 bytes long

var vh06 struct {
	F, L, P  int64 // follower length, leader length, common prefix
	Q        int64 // the logs agree again from offset Q on (Q = min(F,L): never)
	fileLen  int64 // current length of the follower's file
	loaded   int64 // bytes replayed by the last (modelled) loadAOF
	addr     string
}

func vmC06Dial(address string, timeout time.Duration) (*RESPConn, error) { return &RESPConn{}, nil }
func vmC06ConnClose(c *RESPConn) error                                   { return nil }

// equal MD5 iff equal bytes: a window matches iff it lies inside both logs and inside their common prefix
func vmC06Match(s *Server, conn *RESPConn, pos, size int64) (bool, error) {
	if pos+size > int64(s.aofsz) || pos+size > vh06.L {
		return false, nil
	}
	return pos+size <= vh06.P || pos >= vh06.Q, nil
}

// the real function scans backwards from startPos for the last command that ends at or before startPos and
// returns that end (the file holds whole 64-byte commands); io.EOF when there is none
func vmC06EndOfLast(fname string, startPos int64) (int64, error) {
	b := startPos / vhCmdLen * vhCmdLen
	if b <= 0 {
		return 0, io.EOF
	}
	return b, nil
}
func vmC06Create(name string) (*os.File, error) {
	vh06.fileLen = 0
	return new(os.File), nil
}
func vmC06Truncate(name string, size int64) error {
	vh06.fileLen = size
	return nil
}
func vmC06OpenFile(name string, flag int, perm os.FileMode) (*os.File, error) {
	return new(os.File), nil
}
func vmC06FileClose(f *os.File) error { return nil }
func vmC06FileName(f *os.File) string { return "appendonly.aof" }
func vmC06LoadAOF(s *Server) error {
	s.aofsz = int(vh06.fileLen)
	vh06.loaded = vh06.fileLen
	vhDo(s, "SET", "loaded", "x", "STRING", "x")
	return nil
}

