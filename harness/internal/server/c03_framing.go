package server

import (
	"strings"
	"os"

	"github.com/tidwall/redcon"
)

// C03-K2: what writeAOF appends for a command decodes (with the decoder loadAOF uses) to exactly
// that command, with nothing left over, for binary-safe arguments.
//verif:cfg quick.b_args=1..3 quick.b_arg_bytes=0..2 thorough.b_args=1..3 thorough.b_arg_bytes=0..3
func VH_C03_framing_roundtrip() {
	nb := 2
	if vthorough() {
		nb = 3
	}
	na := 1 + vchoose(3)
	args := make([]string, na)
	for i := range args {
		args[i] = vnondetString(nb)
	}
	s := &Server{aof: new(os.File)}
	s.writeAOF(args, nil)
	vassert("C03.K2.aofsz_counts_appended_bytes", s.aofsz == len(s.aofbuf))
	vassert("C03.K2.dirty_flag_set", s.aofdirty.Load())
	complete, out, _, left, err := redcon.ReadNextCommand(s.aofbuf, nil)
	vassert("C03.K2.decodes", err == nil && complete && len(left) == 0 && len(out) == na)
	same := true
	for i := range args {
		same = vand(same, string(out[i]) == args[i])
	}
	vassert("C03.K2.same_arguments", same)
	vobs("enc", string(s.aofbuf))
}

// VH_C03_framing_many: two-digit argument counts and lengths (concrete content).
//verif:cfg b_args=10..12 b_arg_len=0..11
func VH_C03_framing_many() {
	na := 10 + vchoose(3)
	args := make([]string, na)
	fill := "abcdefghijklmnop"
	for i := range args {
		args[i] = fill[:(i*5)%12]
	}
	args[1] = vnondetStringN(10)
	s := &Server{aof: new(os.File)}
	s.writeAOF(args, nil)
	complete, out, _, left, err := redcon.ReadNextCommand(s.aofbuf, nil)
	vassert("C03.K2.decodes", err == nil && complete && len(left) == 0 && len(out) == na)
	same := true
	for i := range args {
		same = vand(same, string(out[i]) == args[i])
	}
	vassert("C03.K2.same_arguments", same)
}

// VH_C03_restart: after any two acknowledged commands from the command table (on top of a fixed dataset with
// points, strings, fields, a deadline, a JSON document and a channel), a restart on the log gives exactly the
// live dataset. Real handleInputCommand / writeAOF / flushAOF, real openAppendFile / loadAOF / handlers.
//verif:cfg use=dirmodel b_program=2_commands_from_the_gate_table_on_the_full_dataset|1_command_on_a_server_with_hooks_and_channels_only|1_command_on_an_empty_server|1..2_of_10_field_writes_on_an_object_whose_fields_hold_0.0,_1.5,_a_JSON_document_and_a_string ignorego=1 maxsteps=40000000
func VH_C03_restart() {
	s, _ := vhShrinkServer()
	s.luascripts = s.newScriptMap() // the table contains script commands
	s.luapool = s.newPool()
	table := vhCommandTable()
	var c1, c2 vhCmd
	switch vchoose(4) {
	case 3:
		// field values written in more than one way: what the reply calls "no change" must not change anything,
		// and what changes must be in the log
		vhWriteCmd(s, "SET", "fleet", "truck5", "FIELD", "speed", "0.0", "FIELD", "rate", "1.5", "FIELD", "info", `{"a":1}`, "FIELD", "name", "Joe", "POINT", "1", "1")
		fsets := [][]string{
			{"FSET", "fleet", "truck5", "speed", "0"},
			{"FSET", "fleet", "truck5", "speed", "-0"},
			{"FSET", "fleet", "truck5", "speed", "5"},
			{"FSET", "fleet", "truck5", "rate", "1.50"},
			{"FSET", "fleet", "truck5", "rate", "0"},
			{"FSET", "fleet", "truck5", "info.a", "1"},
			{"FSET", "fleet", "truck5", "info", `{"a":2}`},
			{"FSET", "fleet", "truck5", "name", "joe"},
			{"FSET", "fleet", "truck5", "name", "0", "speed", "0.0"},
			{"SET", "fleet", "truck5", "FIELD", "speed", "0", "POINT", "1", "1"},
		}
		c1 = vhCmd{args: fsets[vchoose(len(fsets))]}
		vhRunCmd(s, c1.args)
		if vnondetBool() {
			c2 = vhCmd{args: fsets[vchoose(len(fsets))]}
			vhRunCmd(s, c2.args)
		}
		vreach("field-values")
	case 0:
		vhWriteCmd(s, "SET", "fleet", "truck1", "FIELD", "speed", "90", "POINT", "33", "-115")
		vhWriteCmd(s, "SET", "fleet", "truck2", "STRING", "hello")
		vhWriteCmd(s, "SET", "fleet", "truck4", "EX", "100", "POINT", "3", "4")
		vhWriteCmd(s, "JSET", "user", "u1", "name", "Tom")
		vhWriteCmd(s, "SETCHAN", "ch1", "NEARBY", "fleet", "FENCE", "POINT", "33", "-115", "1000")
		c1 = table[vchoose(len(table))]
		c2 = table[vchoose(len(table))]
		vhRunCmd(s, c1.args)
		vhRunCmd(s, c2.args)
	case 1:
		// hooks and channels but not a single collection
		vhWriteCmd(s, "SETCHAN", "ch1", "META", "m", "1", "EX", "3600.5", "NEARBY", "fleet", "FENCE", "POINT", "33", "-115", "1000")
		vhWriteCmd(s, "SETHOOK", "hk", "http://h/", "META", "owner", "me", "WITHIN", "fleet", "FENCE", "BOUNDS", "0", "0", "1", "1")
		c1 = table[vchoose(len(table))]
		vhRunCmd(s, c1.args)
		vreach("hooks-only")
	default:
		// an empty server
		c1 = table[vchoose(len(table))]
		vhRunCmd(s, c1.args)
		vreach("empty-start")
	}
	s.flushAOF(false)
	live := vhSnapshot(s)
	rec, err := vhRestartOn(s.opts.AppendFileName)
	vobs("program", strings.Join(c1.args, " "), strings.Join(c2.args, " "), len(live))
	vassert("C03.restart_loads", err == nil)
	vassert("C03.restart_equals_acknowledged_state", rec == live)
	vhCleanupShrink()
}

func vhRunCmd(s *Server, args []string) {
	client := &Client{}
	msg := &Message{Args: append([]string(nil), args...), ConnType: RESP, OutputType: RESP}
	s.handleInputCommand(client, msg)
}
