package server

import (
	"os"

	"github.com/tidwall/redcon"
)

// C03-K2: what writeAOF appends for a command decodes (with the decoder loadAOF uses) to exactly
// that command, with nothing left over, for binary-safe arguments.
//verif:cfg quick.b_args=1..3 quick.b_arg_bytes=0..2 thorough.b_args=1..3 thorough.b_arg_bytes=0..3
func VH_C03_framing_roundtrip() {
	nb := 2
	if vthorough() {
		nb = 3
	}
	na := 1 + vchoose(3)
	args := make([]string, na)
	for i := range args {
		args[i] = vnondetString(nb)
	}
	s := &Server{aof: new(os.File)}
	s.writeAOF(args, nil)
	vassert("C03.K2.aofsz_counts_appended_bytes", s.aofsz == len(s.aofbuf))
	vassert("C03.K2.dirty_flag_set", s.aofdirty.Load())
	complete, out, _, left, err := redcon.ReadNextCommand(s.aofbuf, nil)
	vassert("C03.K2.decodes", err == nil && complete && len(left) == 0 && len(out) == na)
	same := true
	for i := range args {
		same = vand(same, string(out[i]) == args[i])
	}
	vassert("C03.K2.same_arguments", same)
	vobs("enc", string(s.aofbuf))
}

// VH_C03_framing_many: two-digit argument counts and lengths (concrete content).
//verif:cfg b_args=10..12 b_arg_len=0..11
func VH_C03_framing_many() {
	na := 10 + vchoose(3)
	args := make([]string, na)
	fill := "abcdefghijklmnop"
	for i := range args {
		args[i] = fill[:(i*5)%12]
	}
	args[1] = vnondetStringN(10)
	s := &Server{aof: new(os.File)}
	s.writeAOF(args, nil)
	complete, out, _, left, err := redcon.ReadNextCommand(s.aofbuf, nil)
	vassert("C03.K2.decodes", err == nil && complete && len(left) == 0 && len(out) == na)
	same := true
	for i := range args {
		same = vand(same, string(out[i]) == args[i])
	}
	vassert("C03.K2.same_arguments", same)
}
