package server

import (
	"io"
	"net/http"
	"net/http/httptest"

	"github.com/tidwall/tile38/internal/endpoint"
)

var vhEpServer *httptest.Server
var vhEpMgr *endpoint.Manager

// natively the endpoints are paths of one local HTTP server that answers 500 when the pattern says "fail"
func vhEndpoints(n int) []string {
	vhEpServer = httptest.NewServer(http.HandlerFunc(func(w http.ResponseWriter, r *http.Request) {
		b, _ := io.ReadAll(r.Body)
		if !vhEpHandle(string(b)) {
			w.WriteHeader(500)
			return
		}
		w.WriteHeader(200)
	}))
	return []string{vhEpServer.URL + "/e1", vhEpServer.URL + "/e2"}[:n]
}

func vhEpManager(s *Server) *endpoint.Manager {
	vhEpMgr = endpoint.NewManager(s)
	return vhEpMgr
}

func vhEpShutdown() {
	if vhEpMgr != nil {
		vhEpMgr.Shutdown()
	}
	if vhEpServer != nil {
		vhEpServer.Close()
	}
}

// vhFreeSchedule: the native threads of this harness run freely (its assertions do not depend on their timing)
func vhFreeSchedule() {
	vSchedMu.Lock()
	vSchedFree = true
	vSchedCond.Broadcast()
	vSchedMu.Unlock()
}
