package server

import (
	"net"
	"os"
	"strings"
	"sync"

	"github.com/tidwall/tile38/internal/collection"
	"github.com/tidwall/tile38/internal/field"
	"github.com/tidwall/tile38/internal/object"
)

// Gate harness (C15, C03-K1, C07-K1): the real handleInputCommand and the real handlers over the real
// in-memory server, one command from the table below, under a symbolic configuration:
// leader / follower (caught up or not) / read-only, password set or not, client authenticated or not,
// a (right / wrong / absent) HTTP Authorization value, RESP or JSON output.

// vhLock is the server lock: it records the locking pattern and what the log buffer held at unlock time.
type vhLock struct {
	gmu         sync.Mutex // native replays call the lock from several goroutines
	s           *Server
	log         string
	excl        bool
	shared      int
	aofAtUnlock int
	snapAtUnlock string
	onLock      func() // interference hook: runs before an exclusive acquisition is granted
	noSnap      bool
}

func (l *vhLock) Lock() {
	if l.onLock != nil {
		l.onLock()
	}
	l.gmu.Lock()
	l.log += "L"
	l.excl = true
	l.gmu.Unlock()
}
func (l *vhLock) LockLowPriority() { l.Lock() }
func (l *vhLock) Unlock() {
	l.gmu.Lock()
	defer l.gmu.Unlock()
	l.log += "U"
	l.excl = false
	l.aofAtUnlock = len(l.s.aofbuf)
	if !l.noSnap {
		l.snapAtUnlock = vhSnapshot(l.s)
	}
}
func (l *vhLock) RLock()   { l.gmu.Lock(); l.log += "R"; l.shared++; l.gmu.Unlock() }
func (l *vhLock) RUnlock() { l.gmu.Lock(); l.log += "r"; l.shared--; l.gmu.Unlock() }
func (l *vhLock) takeLog() string {
	l.gmu.Lock()
	defer l.gmu.Unlock()
	s := l.log
	l.log = ""
	return s
}

// vhSnapshot renders everything a client can observe of the dataset: collections, objects (geometry or
// string value, deadline, fields) and hooks/channels.
func vhSnapshot(s *Server) string {
	var sb strings.Builder
	s.cols.Scan(func(key string, col *collection.Collection) bool {
		sb.WriteString("[" + key + "]")
		col.Scan(false, nil, nil, func(o *object.Object) bool {
			sb.WriteString(o.ID() + "=" + o.String())
			if o.Expires() != 0 {
				sb.WriteString("@ttl")
			}
			o.Fields().Scan(func(f field.Field) bool {
				sb.WriteString("," + f.Name() + ":" + string(rune('0'+int(f.Value().Kind()))) + f.Value().Data())
				return true
			})
			sb.WriteString(";")
			return true
		})
		return true
	})
	s.hooks.Ascend(nil, func(v interface{}) bool {
		h := v.(*Hook)
		sb.WriteString("<" + h.Name)
		if h.channel {
			sb.WriteString("|chan")
		}
		sb.WriteString("|" + h.Key + "|" + strings.Join(h.Endpoints, ","))
		for _, m := range h.Metas {
			sb.WriteString("|" + m.Name + "=" + m.Value)
		}
		if !h.expires.IsZero() {
			sb.WriteString("|@ttl")
		}
		if h.Message != nil {
			sb.WriteString("|" + strings.Join(h.Message.Args, " "))
		}
		sb.WriteString(">")
		return true
	})
	return sb.String()
}

type vhCmd struct {
	args  []string
	class int // 0 = data-modifying, 1 = read (needs caught-up), 2 = always answered, 3 = system/other
	logs  [][]string // what the log must hold when the command changes something (nil: the command itself)
}

const (
	vhWrite = iota
	vhRead
	vhOpen
	vhOther
)

func vhCommandTable() []vhCmd {
	return []vhCmd{
		{[]string{"SET", "fleet", "truck3", "POINT", "1", "2"}, vhWrite, nil},
		{[]string{"SET", "fleet", "truck1", "FIELD", "speed", "7", "POINT", "5", "6"}, vhWrite, nil},
		{[]string{"DEL", "fleet", "truck1"}, vhWrite, nil},
		{[]string{"PDEL", "fleet", "truck*"}, vhWrite, nil},
		{[]string{"DROP", "fleet"}, vhWrite, nil},
		{[]string{"FSET", "fleet", "truck1", "speed", "10"}, vhWrite, nil},
		{[]string{"FLUSHDB"}, vhWrite, nil},
		{[]string{"RENAME", "fleet", "cars"}, vhWrite, nil},
		{[]string{"RENAMENX", "fleet", "cars"}, vhWrite, nil},
		{[]string{"EXPIRE", "fleet", "truck1", "10"}, vhWrite, nil},
		{[]string{"PERSIST", "fleet", "truck4"}, vhWrite, nil},
		{[]string{"JSET", "user", "u1", "age", "5"}, vhWrite, nil},
		{[]string{"JDEL", "user", "u1", "name"}, vhWrite, nil},
		{[]string{"SETCHAN", "ch2", "WITHIN", "fleet", "FENCE", "BOUNDS", "0", "0", "1", "1"}, vhWrite, nil},
		{[]string{"DELCHAN", "ch1"}, vhWrite, nil},
		{[]string{"SETCHAN", "ch3", "META", "m", "1", "EX", "500", "NEARBY", "fleet", "FENCE", "POINT", "1", "1", "100"}, vhWrite, nil},
		{[]string{"SETHOOK", "hk1", "http://h/", "META", "owner", "me", "EX", "900", "WITHIN", "fleet", "FENCE", "DETECT", "enter,exit", "BOUNDS", "0", "0", "2", "2"}, vhWrite, nil},
		{[]string{"SETCHAN", "ch1", "META", "m", "2", "NEARBY", "fleet", "FENCE", "POINT", "33", "-115", "1000"}, vhWrite, nil},
		{[]string{"PDELCHAN", "ch*"}, vhWrite, nil},
		{[]string{"DELHOOK", "ch1"}, vhWrite, nil},
		{[]string{"PDELHOOK", "*"}, vhWrite, nil},
		{[]string{"TIMEOUT", "1", "SET", "fleet", "truck5", "POINT", "1", "2"}, vhWrite, nil},
		{[]string{"TIMEOUT", "10", "EVAL", "return tile38.call('set','fleet','truck9','POINT',1,2)", "0"}, vhWrite,
			[][]string{{"set", "fleet", "truck9", "POINT", "1", "2"}}},
		{[]string{"TIMEOUT", "10", "EVALNA", "return tile38.call('set','fleet','truck9','POINT',1,2)", "0"}, vhWrite,
			[][]string{{"set", "fleet", "truck9", "POINT", "1", "2"}}},
		{[]string{"TIMEOUT", "10", "EVALRO", "return tile38.call('del','fleet','truck1')", "0"}, vhRead, nil},
		{[]string{"TIMEOUT", "10", "GET", "fleet", "truck1"}, vhRead, nil},
		{[]string{"TIMEOUT", "10", "DEL", "fleet", "truck1"}, vhWrite, nil},
		{[]string{"FSET", "fleet", "truck1", "speed", "55", "RETURN", "WITHFIELDS"}, vhWrite, nil},
		{[]string{"SET", "fleet", "truck6", "FIELD", "speed", "3", "RETURN", "OBJECT", "POINT", "1", "2"}, vhWrite, nil},
		{[]string{"DEL", "empties", "e1"}, vhWrite, nil},
		// scripts: the writes they make are logged as the inner commands (C18)
		{[]string{"EVAL", "return tile38.call('set','fleet','truck9','POINT',1,2)", "0"}, vhWrite,
			[][]string{{"set", "fleet", "truck9", "POINT", "1", "2"}}},
		{[]string{"EVAL", "tile38.call('set','fleet','truck9','POINT',1,2) return tile38.call('del','fleet','truck1')", "0"}, vhWrite,
			[][]string{{"set", "fleet", "truck9", "POINT", "1", "2"}, {"del", "fleet", "truck1"}}},
		{[]string{"EVALNA", "return tile38.call('set','fleet','truck9','POINT',1,2)", "0"}, vhWrite,
			[][]string{{"set", "fleet", "truck9", "POINT", "1", "2"}}},
		{[]string{"EVALRO", "return tile38.call('set','fleet','truck9','POINT',1,2)", "0"}, vhRead, nil},
		{[]string{"EVALRO", "return tile38.call('get','fleet','truck1')", "0"}, vhRead, nil},
		{[]string{"EVALRO", "return tile38.call('jdel','user','u1','name')", "0"}, vhRead, nil},
		// a script may assign to the globals its call was given: the class of the call must not depend on them
		{[]string{"EVALRO", "EVAL_CMD = 'eval' return tile38.call('set','fleet','truck9','POINT',1,2)", "0"}, vhRead, nil},
		{[]string{"EVALRO", "EVAL_CMD = 'evalna' return tile38.call('del','fleet','truck1')", "0"}, vhRead, nil},
		{[]string{"EVALNA", "EVAL_CMD = 'eval' return tile38.call('set','fleet','truck9','POINT',1,2)", "0"}, vhWrite,
			[][]string{{"set", "fleet", "truck9", "POINT", "1", "2"}}},
		{[]string{"EVALNA", "EVAL_CMD = 'eval' return tile38.call('get','fleet','truck1')", "0"}, vhRead, nil},
		{[]string{"GET", "fleet", "truck1"}, vhRead, nil},
		{[]string{"KEYS", "*"}, vhRead, nil},
		{[]string{"SCAN", "fleet"}, vhRead, nil},
		{[]string{"SEARCH", "fleet"}, vhRead, nil},
		{[]string{"WITHIN", "fleet", "BOUNDS", "0", "0", "50", "50"}, vhRead, nil},
		{[]string{"INTERSECTS", "fleet", "BOUNDS", "0", "0", "50", "50"}, vhRead, nil},
		{[]string{"TTL", "fleet", "truck4"}, vhRead, nil},
		{[]string{"TYPE", "fleet"}, vhRead, nil},
		{[]string{"EXISTS", "fleet", "truck1"}, vhRead, nil},
		{[]string{"FEXISTS", "fleet", "truck1", "speed"}, vhRead, nil},
		{[]string{"FGET", "fleet", "truck1", "speed"}, vhRead, nil},
		{[]string{"JGET", "user", "u1", "name"}, vhRead, nil},
		{[]string{"BOUNDS", "fleet"}, vhRead, nil},
		{[]string{"HOOKS", "*"}, vhRead, nil},
		{[]string{"CHANS", "*"}, vhRead, nil},
		{[]string{"PING"}, vhOpen, nil},
		{[]string{"ECHO", "hi"}, vhOpen, nil},
		{[]string{"OUTPUT", "json"}, vhOpen, nil},
		{[]string{"HEALTHZ"}, vhOpen, nil},
		{[]string{"STATS", "fleet"}, vhOther, nil},
		{[]string{"READONLY", "yes"}, vhOther, nil},
		{[]string{"CONFIG", "GET", "requirepass"}, vhOther, nil},
		{[]string{"TEST", "POINT", "1", "2", "WITHIN", "BOUNDS", "0", "0", "5", "5"}, vhOther, nil},
		{[]string{"NOSUCHCOMMAND", "x"}, vhOther, nil},
	}
}

func vhGateServer() (*Server, *vhLock) {
	s := vhServer()
	lk := &vhLock{s: s}
	s.mu = lk
	s.aof = new(os.File) // never touched: writeAOF only appends to the buffer
	s.loadedAndReady.Store(true)
	s.luascripts = s.newScriptMap()
	s.luapool = s.newPool()
	vhDo(s, "SET", "fleet", "truck1", "FIELD", "speed", "90", "POINT", "33", "-115")
	vhDo(s, "SET", "fleet", "truck2", "STRING", "hello")
	vhDo(s, "SET", "fleet", "truck4", "EX", "100", "POINT", "3", "4")
	vhDo(s, "JSET", "user", "u1", "name", "Tom")
	// a spatial object with an empty geometry (counted, never indexed) alone in its collection
	vhDo(s, "SET", "empties", "e1", "OBJECT", `{"type":"GeometryCollection","geometries":[]}`)
	// a string field whose text looks like a number, next to a real number
	vhDo(s, "FSET", "fleet", "truck2", "code", `"123"`)
	vhDo(s, "SETCHAN", "ch1", "NEARBY", "fleet", "FENCE", "POINT", "33", "-115", "1000")
	return s, lk
}

func vhIsErrorReply(out string, outputJSON bool) bool {
	if i := strings.Index(out, "\r\n\r\n"); strings.HasPrefix(out, "HTTP/1.1 ") && i >= 0 {
		out = out[i+4:] // HTTP transport: look at the body
	}
	if outputJSON {
		return strings.Contains(out, `"ok":false`)
	}
	return strings.HasPrefix(out, "-")
}

//verif:cfg b_commands=whole_table b_config=leader|follower(caught_up_or_not)|read-only_x_password(none|set)_x_authd_x_Authorization(none|right|wrong)_x_RESP|JSON ignorego=1
func VH_C15_gates() {
	s, lk := vhGateServer()
	table := vhCommandTable()
	c := table[vchoose(len(table))]

	follower := vnondetBool()
	caughtUp := vnondetBool()
	readOnly := vnondetBool()
	passSet := vnondetBool()
	authd := vnondetBool()
	authHdr := vchoose(3) // none, right, wrong
	outJSON := vnondetBool()
	if authHdr != 0 {
		outJSON = true // HTTP requests are always answered in JSON
	}

	if follower {
		s.config._followHost = "10.0.0.1"
		s.config._followPort = 9851
		if caughtUp {
			s.fcupflags.Store(bitCaughtUp | bitCaughtUpOnce)
		}
	}
	s.config._readOnly = readOnly
	if passSet {
		s.config._requirePass = "pw"
	}
	client := &Client{authd: authd}
	msg := &Message{Args: append([]string(nil), c.args...), ConnType: RESP, OutputType: RESP}
	if outJSON {
		msg.OutputType = JSON
	}
	switch authHdr { // the Authorization value only exists on HTTP requests
	case 1:
		msg.Auth, msg.ConnType = "pw", HTTP
	case 2:
		msg.Auth, msg.ConnType = "px", HTTP
	}
	before := vhSnapshot(s)
	aofBefore := len(s.aofbuf)
	lk.log = ""

	err := s.handleInputCommand(client, msg)

	after := vhSnapshot(s)
	out := string(client.out)
	changed := before != after
	logged := len(s.aofbuf) != aofBefore
	name := strings.ToLower(c.args[0])
	vobs("gate", name, follower, caughtUp, readOnly, passSet, authd, authHdr, outJSON, changed, logged, lk.log)
	vassert("C15.no_transport_error", err == nil)
	vassert("C15.exactly_one_reply", len(out) > 0)

	// the authenticated flag is only ever set by presenting the password
	if !authd && client.authd {
		vassert("C15.authenticated_only_by_password", passSet && authHdr == 1)
	}
	unauth := passSet && !authd && authHdr != 1
	// (a) password gate
	if unauth {
		vassert("C15.unauthenticated_changes_nothing", !changed && !logged)
		if name != "ping" && name != "echo" && name != "output" && name != "healthz" {
			vassert("C15.unauthenticated_gets_error", vhIsErrorReply(out, outJSON))
		}
		vassert("C15.wrong_or_missing_password_never_authenticates", !client.authd)
	}
	// (b) follower / read-only reject every data-modifying command
	if follower || readOnly {
		if c.class == vhWrite {
			vassert("C15.follower_readonly_rejects_writes", !changed && !logged && (vhIsErrorReply(out, outJSON) || unauth))
		}
		vassert("C15.follower_readonly_state_unchanged", !changed && !logged)
	}
	// (c) a follower that never caught up serves no reads
	if follower && !caughtUp && c.class == vhRead && !unauth {
		vassert("C15.not_caught_up_refuses_reads", vhIsErrorReply(out, outJSON))
	}
	// C03-K1 / C07-K1: a visible change implies: exclusive lock held for the whole change, and the
	// command appended to the log, with its original arguments, before the lock was released.
	if changed {
		vassert("C07.K1.change_under_exclusive_lock", lk.log == "LU")
		vassert("C07.K1.change_complete_at_unlock", lk.snapAtUnlock == after)
		vassert("C03.K1.change_is_logged", logged)
		vassert("C03.K1.logged_before_unlock", lk.aofAtUnlock == len(s.aofbuf))
		var wantLog []byte
		if c.logs == nil {
			wantLog = vhEncode(msg.Args...)
		}
		for _, l := range c.logs {
			wantLog = append(wantLog, vhEncode(l...)...)
		}
		vassert("C03.K1.log_holds_original_arguments", string(s.aofbuf[aofBefore:]) == string(wantLog))
	}
	if logged {
		vassert("C03.K1.only_changes_are_logged_under_lock", strings.HasPrefix(lk.log, "L"))
	}
	if c.class == vhRead || c.class == vhOpen {
		vassert("C15.reads_change_nothing", !changed && !logged)
	}
	// C07: whatever reads the dataset does so under the server lock (shared or exclusive) - also the commands
	// that are not in any explicit list of the dispatcher (STATS, TEST ...)
	if !unauth && (c.class == vhRead || name == "stats" || name == "test" || name == "config" || name == "readonly") &&
		!(follower && !caughtUp && c.class == vhRead) && !strings.HasPrefix(name, "evalna") {
		inner := name
		if name == "timeout" {
			inner = strings.ToLower(c.args[2])
		}
		if !strings.HasPrefix(inner, "evalna") {
			vassert("C07.K1.dataset_is_read_under_the_lock", lk.log != "")
		}
	}
}

// VH_C15_auth: AUTH with symbolic password bytes; only the exact password (modulo surrounding white space,
// as documented) authenticates.
//verif:cfg b_password_bytes=0..3 b_password_set_by=configuration|CONFIG_SET ignorego=1
func VH_C15_auth() {
	s, _ := vhGateServer()
	if vnondetBool() {
		s.config._requirePass = "pw"
	} else {
		// the password is set at run time (CONFIG SET); the gate applies from the next command on
		_, _, err := vhDo(s, "CONFIG", "SET", "requirepass", "pw")
		vassert("C15.config_set_ok", err == nil)
		vreach("config-set")
	}
	pass := vnondetString(3)
	client := &Client{}
	viaHeader := vnondetBool()
	msg := &Message{Args: []string{"AUTH", pass}, ConnType: RESP, OutputType: RESP}
	if viaHeader {
		msg = &Message{Args: []string{"GET", "fleet", "truck1"}, ConnType: RESP, OutputType: RESP, Auth: pass}
		vassume(pass != "")
	}
	s.handleInputCommand(client, msg)
	vobs("auth", client.authd)
	vassert("C15.auth_iff_password_matches", client.authd == (strings.TrimSpace(pass) == "pw"))
	// and only an authenticated connection is served afterwards
	c2 := &Client{authd: client.authd}
	s.handleInputCommand(c2, &Message{Args: []string{"GET", "fleet", "truck1"}, ConnType: RESP, OutputType: RESP})
	vassert("C15.data_only_after_authentication", vhIsErrorReply(string(c2.out), false) == !client.authd)
	if !client.authd {
		vassert("C15.failed_auth_gets_error", vhIsErrorReply(string(client.out), false))
	}
}

// VH_C15_protected: in protected mode a peer that is not on the loopback interface is refused before any
// byte is read from it; loopback peers and unprotected servers are served. The REAL connection closure of
// netServe and the real isProtected run; the peer address has symbolic bytes.
//verif:cfg use=c08 b_peer_address=loopback_v4|loopback_v6|other|3_symbolic_bytes b_config=protected-mode_option_x_config_x_password_x_bind_host ignorego=1
func VH_C15_protected() {
	s := vhAckServer()
	switch vchoose(3) {
	case 0:
		s.opts.ProtectedMode = "no"
	case 1:
		s.opts.ProtectedMode = "yes"
	default:
		s.opts.ProtectedMode = ""
	}
	s.host = [4]string{"", "127.0.0.1", "localhost", "192.168.1.5"}[vchoose(4)]
	s.config._protectedMode = [2]string{"yes", "no"}[vchoose(2)]
	if vnondetBool() {
		s.config._requirePass = "pw"
	}
	var addr string
	switch vchoose(4) {
	case 0:
		addr = "127.0.0.1:40000"
	case 1:
		addr = "[::1]:40000"
	case 2:
		addr = "10.1.2.3:40000"
	default:
		addr = vnondetStringN(3) + ".0.0.1:40000" // loopback exactly when the three bytes are "127"
	}
	c := vhConnFor(s, 0, []string{"PING"}, nil)
	c.addr = addr
	vcallAnonOrSkip(s, c)
	loopback := strings.HasPrefix(addr, "127.0.0.1:") || strings.HasPrefix(addr, "[::1]:")
	protected := s.opts.ProtectedMode != "no" &&
		(s.host == "" || s.host == "127.0.0.1" || s.host == "::1" || s.host == "localhost") &&
		s.config._protectedMode != "no" && s.config._requirePass == ""
	vobs("protected", addr, protected, loopback, c.next, c.denied)
	if protected && !loopback {
		vassert("C15.protected_peer_refused_before_any_read", c.next == 0 && c.denied && c.closed)
	} else {
		vassert("C15.unprotected_or_loopback_peer_is_served", c.next > 0 && !c.denied)
	}
}

func vcallAnonOrSkip(s *Server, c *vhConn) {
	if vnative() {
		vhNativeServe(s, []*vhConn{c})
		return
	}
	vcallAnon("(*Server).netServe", s, net.Conn(c))
}

// VH_C15_password_set_while_connected: requirepass is switched on at run time (CONFIG SET) while a connection is
// open: from the next command on that connection is served only after AUTH with the right password - whoever set
// the password, this connection or another one. The REAL connection closure of netServe serves the packets.
//verif:cfg use=c08 b_connection=opened_while_no_password_is_set,_first_command_PING|AUTH_(empty,_blank,_a_word,_no_argument) b_password_set_by=this_connection|another_connection b_then=GET|SET|AUTH_wrong+GET|AUTH_right+GET ignorego=1
func VH_C15_password_set_while_connected() {
	s := vhAckServer()
	vhDo(s, "SET", "fleet", "truck1", "POINT", "1", "2")
	self := vnondetBool()
	var packets [][]byte
	// the connection is open and has been served before: a PING, or an AUTH sent while no password is configured
	// (blank, empty, some word, no argument at all) - none of which authenticates it for later
	pre := [][]string{{"PING"}, {"AUTH", ""}, {"AUTH", "  "}, {"AUTH", "x"}, {"AUTH"}}[vchoose(5)]
	packets = append(packets, vhEncode(pre...))
	if self {
		packets = append(packets, vhEncode("CONFIG", "SET", "requirepass", "pw"))
	}
	k := vchoose(4)
	switch k {
	case 0:
		packets = append(packets, vhEncode("GET", "fleet", "truck1"))
	case 1:
		packets = append(packets, vhEncode("SET", "fleet", "truck2", "POINT", "3", "4"))
	case 2:
		packets = append(packets, vhEncode("AUTH", "px"), vhEncode("GET", "fleet", "truck1"))
	default:
		packets = append(packets, vhEncode("AUTH", "pw"), vhEncode("GET", "fleet", "truck1"))
	}
	c := &vhConn{s: s, id: 0, packets: packets}
	if !self {
		// ... and another client sets the password after this connection's first command was answered
		c.afterFirst = func() { s.config._requirePass = "pw" }
	}
	before := vhSnapshot(s)
	vcallAnonOrSkip(s, c)
	last := ""
	if len(c.outs) > 0 {
		last = c.outs[len(c.outs)-1]
	}
	vobs("pwset", self, k, len(c.outs))
	vassert("C15.every_command_answered", len(c.outs) == len(packets))
	if k == 3 {
		vassert("C15.right_password_is_served", !vhIsErrorReply(last, false))
	} else {
		vassert("C15.open_connection_is_not_grandfathered", vhIsErrorReply(last, false))
		vassert("C15.unauthenticated_changes_nothing", vhSnapshot(s) == before)
	}
}

// VH_C15_script_writes: the gates hold for writes issued from scripts: on a follower (caught up) and on a READONLY
// server every data-modifying command called from EVAL / EVALNA / EVALRO (and their SHA forms) is refused and
// changes nothing; EVALRO refuses them everywhere; on a writable leader EVAL / EVALNA apply and log them.
//verif:cfg b_script_calls=14_write_commands_of_the_dispatcher_x_call|pcall b_kinds=EVAL,EVALNA,EVALRO,EVALSHA,EVALNASHA,EVALROSHA b_config=leader|caught-up_follower|READONLY ignorego=1
func VH_C15_script_writes() {
	s, _ := vhGateServer()
	writes := [][]string{
		{"set", "fleet", "truck9", "POINT", "1", "2"}, {"del", "fleet", "truck1"}, {"drop", "fleet"},
		{"fset", "fleet", "truck1", "speed", "1"}, {"flushdb"}, {"expire", "fleet", "truck1", "5"},
		{"persist", "fleet", "truck4"}, {"jset", "user", "u1", "age", "5"}, {"pdel", "fleet", "t*"},
		{"rename", "fleet", "cars"}, {"renamenx", "fleet", "cars"}, {"jdel", "user", "u1", "name"},
		{"setchan", "c9", "WITHIN", "fleet", "FENCE", "BOUNDS", "0", "0", "1", "1"}, {"delchan", "ch1"},
	}
	w := writes[vchoose(len(writes))]
	fn := [2]string{"tile38.call(", "tile38.pcall("}[vchoose(2)]
	script := "return " + fn
	for i, a := range w {
		if i > 0 {
			script += ","
		}
		script += "'" + a + "'"
	}
	script += ")"
	kind := vchoose(6)
	cmd := [6]string{"EVAL", "EVALNA", "EVALRO", "EVALSHA", "EVALNASHA", "EVALROSHA"}[kind]
	arg := script
	if kind >= 3 {
		r, _, err := vhDo(s, "SCRIPT", "LOAD", script)
		vassert("C15.S.script_loads", err == nil)
		arg = r.String()
	}
	cfg := vchoose(3)
	switch cfg {
	case 1:
		s.config._followHost = "10.0.0.1"
		s.config._followPort = 9851
		s.fcupflags.Store(bitCaughtUp | bitCaughtUpOnce)
	case 2:
		s.config._readOnly = true
	}
	before := vhSnapshot(s)
	aofBefore := len(s.aofbuf)
	client := &Client{}
	s.handleInputCommand(client, &Message{Args: []string{cmd, arg, "0"}, ConnType: RESP, OutputType: RESP})
	after := vhSnapshot(s)
	ro := kind == 2 || kind == 5
	vobs("scriptwrite", cmd, fn, w[0], cfg, before != after)
	if cfg != 0 || ro {
		vassert("C15.S.script_write_is_refused_and_changes_nothing", before == after && len(s.aofbuf) == aofBefore)
	} else if before != after {
		vreach("script-write-applied-on-leader")
		vassert("C15.S.script_write_on_leader_is_logged", len(s.aofbuf) > aofBefore)
	}
}
