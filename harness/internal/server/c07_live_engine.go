package server

func vhNativeLive(s *Server, lk *vhLock, fence *liveFenceSwitches, msg *Message, p1, p2 [2]string) (bool, string) {
	return false, ""
}
