package server

import (
	"github.com/tidwall/gjson"
)

// C17-K1: jsonString / appendJSONString produce one valid JSON string that decodes to the input.
// encoding/json.Marshal (reflection) is outside the engine: it is replaced by a marker, and what is
// decided is that the hand-written fast path is taken only for strings that need no escaping.

//verif:replace encoding/json.Marshal => vmJSONMarshal

var vmMarshalCalls int

func vmJSONMarshal(v interface{}) ([]byte, error) {
	vmMarshalCalls++
	return []byte(`"\u0000"`), nil
}

func vhNeedsEscape(s string) bool {
	need := false
	for i := 0; i < len(s); i++ {
		c := s[i]
		need = vor(need, c < 0x20 || c == '"' || c == '\\' || c >= 0x7f)
	}
	return need
}

//verif:cfg quick.b_bytes=0..4 thorough.b_bytes=0..6
func VH_C17_jsonstring() {
	n := 4
	if vthorough() {
		n = 6
	}
	s := vnondetString(n)
	vmMarshalCalls = 0
	out := jsonString(s)
	if !vhNeedsEscape(s) {
		vobs("out", out) // (the escaped form comes from encoding/json, which the engine does not run)
	}
	if !vnative() {
		fast := vmMarshalCalls == 0
		vassert("C17.K1.fast_path_only_for_plain_ascii", fast == !vhNeedsEscape(s))
		if fast {
			vassert("C17.K1.fast_path_quotes_input", out == "\""+s+"\"")
		}
	}
	vassert("C17.K1.valid_json", gjson.Valid(out))
	if !vhNeedsEscape(s) {
		vassert("C17.K1.decodes_to_input", gjson.Parse(out).String() == s)
	}
	// appendJSONString after existing content
	vmMarshalCalls = 0
	b := appendJSONString([]byte("x:"), s)
	vassert("C17.K1.append_keeps_prefix", len(b) >= 4 && string(b[:2]) == "x:")
	vassert("C17.K1.append_valid_json", gjson.Valid(string(b[2:])))
	if !vhNeedsEscape(s) {
		vassert("C17.K1.append_plain", string(b[2:]) == "\""+s+"\"")
	}
}
