package server

import (
	"strings"

	"github.com/tidwall/gjson"
	"github.com/tidwall/resp"
)

// C17-K1: jsonString / appendJSONString produce one valid JSON string that decodes to the input.
// encoding/json.Marshal (reflection) is outside the engine: it is replaced by a marker, and what is
// decided is that the hand-written fast path is taken only for strings that need no escaping.

//verif:replace encoding/json.Marshal => vmJSONMarshal

var vmMarshalCalls int

func vmJSONMarshal(v interface{}) ([]byte, error) {
	vmMarshalCalls++
	if l, ok := v.([]string); ok {
		// lists of plain names (KEYS): written out; anything that needs escaping keeps the marker
		b := []byte{'['}
		for i, s := range l {
			if vhNeedsEscape(s) {
				return []byte(`"\u0000"`), nil
			}
			if i > 0 {
				b = append(b, ',')
			}
			b = append(b, '"')
			b = append(b, s...)
			b = append(b, '"')
		}
		return append(b, ']'), nil
	}
	if str, ok := v.(string); ok && !vhNeedsEscape(str) {
		return []byte("\"" + str + "\""), nil
	}
	return []byte(`"\u0000"`), nil
}

func vhNeedsEscape(s string) bool {
	need := false
	for i := 0; i < len(s); i++ {
		c := s[i]
		need = vor(need, c < 0x20 || c == '"' || c == '\\' || c >= 0x7f)
	}
	return need
}

//verif:cfg quick.b_bytes=0..4 thorough.b_bytes=0..6
func VH_C17_jsonstring() {
	n := 4
	if vthorough() {
		n = 6
	}
	s := vnondetString(n)
	vmMarshalCalls = 0
	out := jsonString(s)
	if !vhNeedsEscape(s) {
		vobs("out", out) // (the escaped form comes from encoding/json, which the engine does not run)
	}
	if !vnative() {
		fast := vmMarshalCalls == 0
		vassert("C17.K1.fast_path_only_for_plain_ascii", fast == !vhNeedsEscape(s))
		if fast {
			vassert("C17.K1.fast_path_quotes_input", out == "\""+s+"\"")
		}
	}
	vassert("C17.K1.valid_json", gjson.Valid(out))
	if !vhNeedsEscape(s) {
		vassert("C17.K1.decodes_to_input", gjson.Parse(out).String() == s)
	}
	// appendJSONString after existing content
	vmMarshalCalls = 0
	b := appendJSONString([]byte("x:"), s)
	vassert("C17.K1.append_keeps_prefix", len(b) >= 4 && string(b[:2]) == "x:")
	vassert("C17.K1.append_valid_json", gjson.Valid(string(b[2:])))
	if !vhNeedsEscape(s) {
		vassert("C17.K1.append_plain", string(b[2:]) == "\""+s+"\"")
	}
}

// C17-K2: in JSON output mode every reply of the commands below - on a dataset whose field values include
// every spelling the server accepts (odd numerics, quoted strings, JSON, NaN/Inf) - is one valid JSON document
// with a boolean "ok"; in RESP mode the reply marshals to well-formed RESP. Real handlers, real gjson.Valid.

var vhFieldSpellings = []string{"5", "+5", ".5", "5.", "-.25", "0x1p4", "1e5", "-0", "000123", "1_0", "NaN", "+Inf", "-Infinity",
	"abc", "\"quoted\"", "a\"b", "a\\b", "{\"a\":1}", "[1,2]", "true", "null", " 7 ", "\x01ctl", "\xffhi"}

var vhJSONCommands = [][]string{
	{"GET", "fleet", "truck1", "WITHFIELDS"}, {"GET", "fleet", "truck1", "WITHFIELDS", "POINT"}, {"FGET", "fleet", "truck1", "speed"},
	{"SCAN", "fleet"}, {"SCAN", "fleet", "IDS"}, {"SCAN", "fleet", "COUNT"}, {"SEARCH", "fleet"}, {"WITHIN", "fleet", "BOUNDS", "0", "-180", "50", "180"},
	{"NEARBY", "fleet", "POINT", "33", "-115"}, {"INTERSECTS", "fleet", "IDS", "BOUNDS", "0", "-180", "50", "180"},
	{"OUTPUT", "json"}, {"OUTPUT"}, {"PING"}, {"ECHO", "a\"b"}, {"TTL", "fleet", "truck4"}, {"EXISTS", "fleet", "truck1"},
	{"FEXISTS", "fleet", "truck1", "speed"}, {"TYPE", "fleet"}, {"BOUNDS", "fleet"}, {"BOUNDS", "nokey"}, {"KEYS", "*"},
	{"DEL", "fleet", "truck2"}, {"DROP", "fleet"}, {"RENAME", "fleet", "cars"}, {"EXPIRE", "fleet", "truck1", "5"}, {"PERSIST", "fleet", "truck4"},
	{"FSET", "fleet", "truck1", "speed", "1"}, {"SET", "fleet", "t9", "POINT", "1", "2"}, {"JGET", "user", "u1"}, {"JGET", "user", "u1", "name"},
	{"JSET", "user", "u1", "age", "5"}, {"JDEL", "user", "u1", "name"}, {"HOOKS", "*"}, {"CHANS", "*"}, {"STATS", "fleet", "nokey"},
	{"HEALTHZ"}, {"NOSUCH"}, {"GET", "fleet"}, {"GET", "nokey", "x"}, {"SET", "fleet", "t9", "POINT", "abc", "2"}, {"TEST", "POINT", "1", "2", "WITHIN", "BOUNDS", "0", "0", "5", "5"},
	{"CONFIG", "GET", "requirepass"}, {"READONLY", "no"}, {"FLUSHDB"}, {"PDEL", "fleet", "t*"}, {"SETCHAN", "c2", "WITHIN", "fleet", "FENCE", "BOUNDS", "0", "0", "1", "1"}, {"DELCHAN", "ch1"},
}

//verif:cfg b_commands=47 b_field_spellings=24 b_output=JSON_and_RESP ignorego=1
func VH_C17_replies_wellformed() {
	s, _ := vhGateServer()
	spell := vhFieldSpellings[vchoose(len(vhFieldSpellings))]
	// a field holding the chosen spelling (FSET and SET FIELD go through the same value parser)
	vhDo(s, "FSET", "fleet", "truck1", "speed", spell)
	vhDo(s, "SET", "fleet", "truck2", "FIELD", "note", spell, "STRING", spell)
	c := vhJSONCommands[vchoose(len(vhJSONCommands))]
	client := &Client{}
	msg := &Message{Args: append([]string(nil), c...), ConnType: RESP, OutputType: JSON}
	err := s.handleInputCommand(client, msg)
	out := string(client.out)
	vobs("json", c[0], spell)
	vassert("C17.K2.no_transport_error", err == nil)
	// RESP transport carrying JSON: $<len>\r\n<json>\r\n
	body, framed := vhBulkBody(out)
	vassert("C17.K3.resp_bulk_framing", framed)
	vassert("C17.K2.reply_is_valid_json", gjson.Valid(body))
	okv := gjson.Get(body, "ok")
	vassert("C17.K2.boolean_ok", okv.Type == gjson.True || okv.Type == gjson.False)
	if okv.Type == gjson.False {
		vassert("C17.K2.err_when_not_ok", gjson.Get(body, "err").Type == gjson.String)
	}
	if c[0] != "OUTPUT" || len(c) == 1 {
		vassert("C17.K2.elapsed_is_a_string", gjson.Get(body, "elapsed").Type == gjson.String)
	}
}

// vhBulkBody parses "$<n>\r\n<n bytes>\r\n" exactly.
func vhBulkBody(out string) (string, bool) {
	if len(out) < 4 || out[0] != '$' {
		return "", false
	}
	n, i := 0, 1
	for ; i < len(out) && out[i] >= '0' && out[i] <= '9'; i++ {
		n = n*10 + int(out[i]-'0')
	}
	if i == 1 || i+2 > len(out) || out[i] != '\r' || out[i+1] != '\n' {
		return "", false
	}
	i += 2
	if i+n+2 != len(out) || out[i+n] != '\r' || out[i+n+1] != '\n' {
		return "", false
	}
	return out[i : i+n], true
}

// VH_C17_transports: the same reply framed for HTTP, native and websocket transports.
//verif:cfg b_transports=HTTP,Native,WebSocket b_commands=6+5_vector-tile_requests(HTTP) ignorego=1
func VH_C17_transports() {
	s, _ := vhGateServer()
	cmds := [][]string{{"GET", "fleet", "truck1"}, {"SCAN", "fleet"}, {"PING"}, {"NOSUCH"}, {"GET", "nokey", "x"}, {"SET", "fleet", "t9", "POINT", "1", "2"},
		// vector-tile requests exist over HTTP only: a tile, a tile of a missing key, and requests that fail
		{"fleet/0/0/0.mvt"}, {"nokey/3/1/2.pbf"}, {"fleet/0/0/zero.mvt"}, {"fleet/0/0/0.pbf?limit=many"}, {"fleet/1/1/1.mvt?sparse=2"}}
	c := cmds[vchoose(len(cmds))]
	ct := [3]Type{HTTP, Native, WebSocket}[vchoose(3)]
	tile := len(c) == 1 && strings.Contains(c[0], "/")
	if tile {
		ct = HTTP
	}
	client := &Client{}
	msg := &Message{Args: append([]string(nil), c...), ConnType: ct, OutputType: JSON}
	err := s.handleInputCommand(client, msg)
	out := string(client.out)
	vassert("C17.K3.no_transport_error", err == nil)
	var body string
	ok := false
	switch ct {
	case HTTP:
		i := strings.Index(out, "\r\n\r\n")
		if (strings.HasPrefix(out, "HTTP/1.1 200 OK\r\n") || (tile && strings.HasPrefix(out, "HTTP/1.1 500 Internal Server Error\r\n"))) && i > 0 {
			body = out[i+4:]
			cl := vhHeaderInt(out[:i], "Content-Length: ")
			ok = cl == len(body) && strings.HasSuffix(body, "\r\n")
			body = strings.TrimSuffix(body, "\r\n")
			if strings.Contains(out[:i], "Content-Type: application/vnd.mapbox-vector-tile") {
				// a binary tile: the framing is what is decided
				vassert("C17.K3.transport_framing_carries_exact_length", ok && strings.HasPrefix(out, "HTTP/1.1 200 OK"))
				vreach("tile")
				return
			}
		}
	case Native:
		// $<len> <body>\r\n
		if strings.HasPrefix(out, "$") && strings.HasSuffix(out, "\r\n") {
			sp := strings.IndexByte(out, ' ')
			if sp > 1 {
				n := vhAtoi(out[1:sp])
				body = out[sp+1 : len(out)-2]
				ok = n == len(body)
			}
		}
	default:
		// websocket text frame: 0x81, 7-bit length (replies here are < 126 bytes or use the 16-bit form)
		if len(out) >= 2 && out[0] == 129 {
			if out[1] < 126 {
				body = out[2:]
				ok = int(out[1]) == len(body)
			} else if out[1] == 126 && len(out) >= 4 {
				body = out[4:]
				ok = int(out[2])<<8|int(out[3]) == len(body) && len(body) >= 126
			}
		}
	}
	vobs("transport", int(ct), c[0])
	vassert("C17.K3.transport_framing_carries_exact_length", ok)
	vassert("C17.K3.framed_body_is_valid_json", gjson.Valid(body))
}

func vhAtoi(s string) int {
	n := 0
	for i := 0; i < len(s); i++ {
		if s[i] < '0' || s[i] > '9' {
			return -1
		}
		n = n*10 + int(s[i]-'0')
	}
	return n
}

func vhHeaderInt(head, name string) int {
	i := strings.Index(head, name)
	if i < 0 {
		return -1
	}
	j := i + len(name)
	k := j
	for k < len(head) && head[k] >= '0' && head[k] <= '9' {
		k++
	}
	return vhAtoi(head[j:k])
}

// VH_C17_resp_wellformed: in RESP mode every reply - error replies that echo client text included - is exactly
// one well-formed RESP value (the client text is symbolic: CR, LF and every other byte).
//verif:cfg b_commands=8 b_echoed_argument_bytes=0..2_symbolic ignorego=1
func VH_C17_resp_wellformed() {
	s, _ := vhGateServer()
	x := vnondetString(2)
	cmds := [][]string{
		{"DEL", "fleet", "truck1", x}, {"zz" + x, "a"}, {"SET", "fleet", "t9", "POINT", "q" + x, "2"}, {"GET", "fleet", x},
		{"GET", "fleet", "truck1", x}, {"EXPIRE", "fleet", "truck1", "q" + x}, {"ECHO", x}, {"OUTPUT", x},
	}
	c := cmds[vchoose(len(cmds))]
	vassume(c[0] != "")
	client := &Client{}
	msg := &Message{Args: append([]string(nil), c...), ConnType: RESP, OutputType: RESP}
	err := s.handleInputCommand(client, msg)
	out := string(client.out)
	vobs("resp", c[0], x)
	vassert("C17.K2.no_transport_error", err == nil)
	vassert("C17.K2.exactly_one_wellformed_resp_value", vhOneRESPValue(out))
}

// vhOneRESPValue: out is exactly one RESP value (simple string, error, integer, bulk, or array thereof).
func vhOneRESPValue(out string) bool {
	n, ok := vhRESPLen(out, 0, 0)
	return ok && n == len(out)
}

func vhRESPLen(s string, i int, depth int) (int, bool) {
	if i >= len(s) || depth > 4 {
		return 0, false
	}
	switch s[i] {
	case '+', '-', ':':
		for j := i + 1; j < len(s); j++ {
			if s[j] == '\n' {
				return 0, false // a bare LF inside a line
			}
			if s[j] == '\r' {
				if j+1 < len(s) && s[j+1] == '\n' {
					return j + 2, true
				}
				return 0, false
			}
		}
		return 0, false
	case '$', '*':
		j := i + 1
		neg := false
		if j < len(s) && s[j] == '-' {
			neg = true
			j++
		}
		n, d := 0, 0
		for ; j < len(s) && s[j] >= '0' && s[j] <= '9'; j++ {
			n = n*10 + int(s[j]-'0')
			d++
		}
		if d == 0 || j+1 >= len(s) || s[j] != '\r' || s[j+1] != '\n' {
			return 0, false
		}
		j += 2
		if neg {
			return j, n == 1
		}
		if s[i] == '$' {
			if j+n+2 > len(s) || s[j+n] != '\r' || s[j+n+1] != '\n' {
				return 0, false
			}
			return j + n + 2, true
		}
		for k := 0; k < n; k++ {
			var ok bool
			j, ok = vhRESPLen(s, j, depth+1)
			if !ok {
				return 0, false
			}
		}
		return j, true
	}
	return 0, false
}

// C17-K4: for the same state and command, RESP and JSON convey the same result. Twin servers with the same
// dataset run the same command, one in each output mode; the results are compared field by field (ids, objects,
// field values, counts, cursors, booleans, errors), and the command has the same effect on both datasets.

var vhAgreeCommands = [][]string{
	{"GET", "fleet", "?", "WITHFIELDS"}, {"GET", "fleet", "truck1", "WITHFIELDS"}, {"GET", "fleet", "truck2", "WITHFIELDS"}, {"GET", "nokey", "x"},
	{"FGET", "fleet", "truck1", "speed"}, {"FGET", "fleet", "truck2", "code"}, {"FGET", "fleet", "truck1", "nofield"},
	{"SCAN", "fleet", "IDS"}, {"SCAN", "fleet", "LIMIT", "2", "IDS"}, {"SCAN", "fleet", "DESC", "MATCH", "truck*", "IDS"}, {"SCAN", "fleet", "COUNT"},
	{"SCAN", "fleet", "WHERE", "speed", "1", "100", "COUNT"}, {"SEARCH", "fleet", "IDS"}, {"SEARCH", "fleet", "COUNT"},
	{"WITHIN", "fleet", "IDS", "BOUNDS", "0", "-180", "50", "180"}, {"INTERSECTS", "fleet", "COUNT", "BOUNDS", "0", "-180", "50", "180"},
	{"NEARBY", "fleet", "LIMIT", "1", "IDS", "POINT", "33", "-115"},
	{"KEYS", "*"}, {"KEYS", "f*"}, {"TTL", "fleet", "truck4"}, {"TTL", "fleet", "truck1"}, {"TTL", "fleet", "?"},
	{"EXISTS", "fleet", "?"}, {"EXISTS", "fleet", "truck1"}, {"FEXISTS", "fleet", "truck1", "speed"}, {"FEXISTS", "fleet", "truck1", "nofield"},
	{"TYPE", "fleet"}, {"TYPE", "nokey"}, {"JGET", "user", "u1", "name"}, {"JGET", "user", "u1", "nopath"},
	{"GET", "fleet"}, {"FGET", "fleet", "?", "speed"}, {"SCAN"}, {"TTL", "fleet"}, {"NOSUCH"},
	// writes: same effect in both modes
	{"SET", "fleet", "?", "POINT", "1", "2"}, {"SET", "fleet", "truck1", "NX", "POINT", "1", "2"}, {"SET", "fleet", "?", "XX", "POINT", "1", "2"},
	{"DEL", "fleet", "?"}, {"DEL", "fleet", "truck1"}, {"PDEL", "fleet", "truck*"}, {"DROP", "fleet"}, {"DROP", "nokey"},
	{"FSET", "fleet", "truck1", "speed", "90"}, {"FSET", "fleet", "truck1", "speed", "91"}, {"FSET", "fleet", "?", "XX", "speed", "1"},
	{"EXPIRE", "fleet", "?", "5"}, {"PERSIST", "fleet", "truck4"}, {"PERSIST", "fleet", "truck1"}, {"RENAME", "fleet", "cars"}, {"RENAMENX", "fleet", "user"},
	{"JSET", "user", "u1", "age", "5"}, {"JDEL", "user", "u1", "name"}, {"JDEL", "user", "u1", "nopath"},
}

func vhStrs(v resp.Value) []string {
	var out []string
	for _, e := range v.Array() {
		out = append(out, e.String())
	}
	return out
}

func vhJStrs(r gjson.Result) []string {
	var out []string
	for _, e := range r.Array() {
		out = append(out, e.String())
	}
	return out
}

//verif:cfg b_commands=54(reads_and_writes,_failing_variants_included) b_symbolic=one_id_byte_where_the_table_has_? b_dataset=points,string,deadline,fields,JSON_document,channel ignorego=1
func VH_C17_agreement() {
	s1, _ := vhGateServer()
	s2, _ := vhGateServer()
	tmpl := vhAgreeCommands[vchoose(len(vhAgreeCommands))]
	c := append([]string(nil), tmpl...)
	for i := range c {
		if c[i] == "?" {
			c[i] = vnondetStringN(1)
		}
	}
	r, _, e1 := vhDo(s1, c...)
	jv, _, e2 := vhDoJSON(s2, c...)
	j := jv.String()
	name := strings.ToLower(c[0])
	vobs("agree", strings.Join(tmpl, " "), e1 != nil, e2 != nil)
	vassert("C17.K4.same_effect_in_both_modes", vhSnapshot(s1) == vhSnapshot(s2))
	if e1 != nil {
		// an error in RESP mode is the same error in JSON mode
		vassert("C17.K4.same_error", e2 != nil && e1.Error() == e2.Error())
		return
	}
	if e2 != nil {
		// JSON reports "not found" / "already exists" as errors where RESP gives a negative answer
		neg := r.IsNull() || (r.Type() == resp.Integer && (r.Integer() == 0 || r.Integer() == -2)) ||
			(r.Type() == resp.SimpleString && r.String() == "none")
		vassert("C17.K4.json_error_only_for_a_negative_resp_answer", neg)
		return
	}
	vassert("C17.K4.json_ok", gjson.Get(j, "ok").Type == gjson.True)
	ids := false
	for _, a := range c {
		if a == "IDS" {
			ids = true
		}
	}
	count := false
	for _, a := range c {
		if a == "COUNT" {
			count = true
		}
	}
	switch {
	case name == "get":
		arr := r.Array()
		vassert("C17.K4.get_object", len(arr) >= 1 && (arr[0].String() == gjson.Get(j, "object").Raw || arr[0].String() == gjson.Get(j, "object").String()))
		nf := 0
		if len(arr) == 2 {
			f := arr[1].Array()
			nf = len(f) / 2
			for k := 0; k+1 < len(f); k += 2 {
				vassert("C17.K4.get_field_values", gjson.Get(j, "fields."+f[k].String()).String() == vhUnquote(f[k+1].String()))
			}
		}
		vassert("C17.K4.get_field_count", len(gjson.Get(j, "fields").Map()) == nf)
	case name == "fget":
		vassert("C17.K4.fget_value", gjson.Get(j, "value").String() == vhUnquote(r.String()))
	case (name == "scan" || name == "search" || name == "within" || name == "intersects" || name == "nearby") && ids:
		cur, l := vhIDsOf(r)
		vassert("C17.K4.ids_equal", vhSameStrings(l, vhJStrs(gjson.Get(j, "ids"))))
		vassert("C17.K4.cursor_equal", int(gjson.Get(j, "cursor").Int()) == cur && int(gjson.Get(j, "count").Int()) == len(l))
	case count:
		vassert("C17.K4.count_equal", int(gjson.Get(j, "count").Int()) == r.Integer())
	case name == "keys":
		vassert("C17.K4.keys_equal", vhSameStrings(vhStrs(r), vhJStrs(gjson.Get(j, "keys"))))
	case name == "ttl":
		vassert("C17.K4.ttl_equal", int(gjson.Get(j, "ttl").Int()) == r.Integer())
	case name == "exists" || name == "fexists":
		vassert("C17.K4.exists_equal", gjson.Get(j, "exists").Bool() == (r.Integer() == 1))
	case name == "type":
		vassert("C17.K4.type_equal", gjson.Get(j, "type").String() == r.String())
	case name == "jget":
		if r.IsNull() {
			vassert("C17.K4.jget_missing", !gjson.Get(j, "value").Exists())
		} else {
			vassert("C17.K4.jget_value", gjson.Get(j, "value").String() == r.String())
		}
	}
}

// a string field value prints with its quotes in RESP mode when it was given quoted
func vhUnquote(s string) string {
	if len(s) >= 2 && s[0] == '"' && s[len(s)-1] == '"' {
		return gjson.Parse(s).String()
	}
	return s
}

// VH_C17_websocket_frame: the websocket text frame around a reply of any length decodes (RFC 6455: 7-bit length,
// 126 + 16-bit length, 127 + 64-bit length) to exactly the reply; lengths around both boundaries are symbolic.
//verif:cfg b_payload_length=any_of_118..134|65528..65543_(symbolic) b_payload=2_symbolic_bytes_at_both_ends ignorego=1 maxalloc=200000
func VH_C17_websocket_frame() {
	base := [2]int{118, 65528}[vchoose(2)]
	d := vnondetInt()
	vassume(d >= 0 && d <= 16)
	n := base + vconcretize(d)
	data := make([]byte, n)
	for i := range data {
		data[i] = 'a' + byte(i%26)
	}
	first, last := vnondetByte(), vnondetByte()
	data[0], data[n-1] = first, last
	var w vhBuf
	err := WriteWebSocketMessage(&w, data)
	vassert("C17.K3.ws_no_error", err == nil)
	out := w.b
	vassert("C17.K3.ws_text_frame_header", len(out) >= 2 && out[0] == 0x81)
	hl, plen := 2, int(out[1])
	switch {
	case out[1] == 126:
		hl, plen = 4, int(out[2])<<8|int(out[3])
		vassert("C17.K3.ws_16bit_length_only_when_needed", plen >= 126)
	case out[1] == 127:
		hl, plen = 10, 0
		for i := 2; i < 10; i++ {
			plen = plen<<8 | int(out[i])
		}
		vassert("C17.K3.ws_64bit_length_only_when_needed", plen > 0xFFFF)
	}
	vassert("C17.K3.ws_frame_length_is_payload_length", plen == n && len(out) == hl+n)
	vassert("C17.K3.ws_payload_intact", out[hl] == first && out[hl+n-1] == last && out[hl+1] == data[1])
	vobs("ws", n, hl)
}

type vhBuf struct{ b []byte }

func (w *vhBuf) Write(p []byte) (int, error) {
	w.b = append(w.b, p...)
	return len(p), nil
}

// vmJSONMarshalASCII: encoding/json's encoding of a string of ASCII bytes, written out (quotes, backslash, the
// short escapes \n \r \t, \u00XX for the other control bytes, and the HTML-safe forms of < > &); used where the
// subject is how string VALUES travel through JSON replies. Anything else keeps the marker of vmJSONMarshal.
//verif:replace[c17s] encoding/json.Marshal => vmJSONMarshalASCII
func vmJSONMarshalASCII(v interface{}) ([]byte, error) {
	str, ok := v.(string)
	if !ok {
		return vmJSONMarshal(v)
	}
	const hex = "0123456789abcdef"
	b := []byte{'"'}
	for i := 0; i < len(str); i++ {
		c := str[i]
		switch {
		case c >= 0x80:
			return []byte(`"\u0000"`), nil
		case c == '"':
			b = append(b, '\\', '"')
		case c == '\\':
			b = append(b, '\\', '\\')
		case c == '\n':
			b = append(b, '\\', 'n')
		case c == '\r':
			b = append(b, '\\', 'r')
		case c == '\t':
			b = append(b, '\\', 't')
		case c < 0x20 || c == '<' || c == '>' || c == '&':
			b = append(b, '\\', 'u', '0', '0', hex[c>>4], hex[c&0xf])
		default:
			b = append(b, c)
		}
	}
	return append(b, '"'), nil
}

// VH_C17_string_values: a STRING object whose value holds any two ASCII bytes (quotes, backslashes, control bytes
// included) reads back through GET / SCAN / SEARCH in JSON mode as one valid JSON document whose "object" member
// decodes to exactly the value RESP mode returns.
//verif:cfg use=c17s b_value=1_fixed+2_symbolic_ASCII_bytes b_commands=GET|SCAN|SEARCH|SET_RETURN_OBJECT ignorego=1
func VH_C17_string_values() {
	s := vhServer()
	s.loadedAndReady.Store(true)
	tail := vnondetStringN(2)
	vassume(tail[0] < 0x80 && tail[1] < 0x80)
	val := "a" + tail
	_, _, err := vhDo(s, "SET", "k", "id", "STRING", val)
	vassert("C17.V.set_ok", err == nil)
	r, _, _ := vhDo(s, "GET", "k", "id")
	vassert("C17.V.resp_value_is_the_value", r.String() == val)
	cmds := [][]string{{"GET", "k", "id"}, {"SCAN", "k"}, {"SEARCH", "k"}}
	paths := [3]string{"object", "objects.0.object", "objects.0.object"}
	i := vchoose(3)
	// the JSON document as the handler returns it (the transport framing is VH_C17_transports' subject)
	res, _, herr := s.command(&Message{Args: cmds[i], ConnType: RESP, OutputType: JSON}, &Client{})
	vassert("C17.V.no_error", herr == nil)
	body := res.String()
	vassert("C17.V.reply_is_valid_json", gjson.Valid(body))
	got := gjson.Get(body, paths[i])
	vassert("C17.V.json_object_decodes_to_the_resp_value", got.Type == gjson.String && got.String() == val)
	vobs("strval", i, got.String() == val) // (the document also carries the elapsed wall-clock text: not observed)
}
