package server

import (
	"bytes"
	"strings"

	"github.com/tidwall/btree"
)

// C07 (live fences): the goroutine of a live geofence connection evaluates the fence for every queued write.
// That evaluation connects / disconnects the object to the fence's group in the server-wide group B-trees, so
// it must run under the exclusive lock: two live connections (or one and any reader) would otherwise mutate the
// shared trees at the same time. The REAL closure of goLive that takes the lock and calls FenceMatch runs here
// (entered directly with its captured variables), under the recording ghost lock.

func vhTreeLen(t *btree.BTree) int { return t.Len() }

//verif:cfg b_moves=outside->inside|inside->inside|inside->outside ignorego=1
func VH_C07_live_fence_lock() {
	s, lk := vhGateServer()
	// a live fence on the fleet collection (what `WITHIN fleet FENCE BOUNDS ...` on a connection sets up)
	msg := &Message{Args: []string{"WITHIN", "fleet", "FENCE", "BOUNDS", "0", "0", "10", "10"}, ConnType: RESP, OutputType: JSON}
	args, err := s.cmdSearchArgs(true, "within", msg.Args[1:], withinOrIntersectsTypes)
	vassert("C07.live.fence_parses", err == nil)
	args.cmd = "within"
	fence := &args
	var wr bytes.Buffer
	sw, err := s.newScanWriter(&wr, msg, fence.key, fence.output, fence.precision, fence.globs, false,
		fence.cursor, fence.limit, fence.wheres, fence.whereins, fence.whereevals, fence.nofields, fence.mvt, fence.tileX, fence.tileY, fence.tileZ)
	vassert("C07.live.scanwriter", err == nil)
	pos := [3][2]string{{"20", "20"}, {"5", "5"}, {"6", "6"}}
	a, b := vchoose(3), vchoose(3)
	var changed bool
	var log string
	if vnative() {
		// the real goLive goroutine on a fake connection, fed by the real processLives
		changed, log = vhNativeLive(s, lk, fence, msg, pos[a], pos[b])
	} else {
		gh, go_ := vhTreeLen(s.groupHooks), vhTreeLen(s.groupObjects)
		lk.takeLog()
		_, d1, _ := vhDo(s, "SET", "fleet", "car", "POINT", pos[a][0], pos[a][1])
		vcallAnon("(*Server).goLive", s, sw, fence, &d1) // the live goroutine digests the first write
		_, d, _ := vhDo(s, "SET", "fleet", "car", "POINT", pos[b][0], pos[b][1])
		details := &d
		vcallAnon("(*Server).goLive", s, sw, fence, details)
		changed = vhTreeLen(s.groupHooks) != gh || vhTreeLen(s.groupObjects) != go_
		log = lk.takeLog()
	}
	vobs("live", a, b, changed)
	if changed {
		vreach("group-trees-mutated")
		vassert("C07.live.shared_trees_mutated_only_under_exclusive_lock", !strings.Contains(log, "R"))
	}
}
