package server

import (
	"strings"

	"github.com/tidwall/tile38/internal/collection"
	"github.com/tidwall/tile38/internal/object"
)

// C01-K3: one command from a table of edge cases (malformed, failing and succeeding variants of every
// keyspace command) on a fixed dataset: a command that answers with an error or a negative answer changes
// nothing; a collection exists iff it holds at least one object; objects and fields read back as written.

func vhNoEmptyCollections(s *Server) bool {
	ok := true
	s.cols.Scan(func(key string, col *collection.Collection) bool {
		n := 0
		col.Scan(false, nil, nil, func(o *object.Object) bool { n++; return true })
		if n == 0 || col.Count() != n {
			ok = false // no retrievable object, or the counter that decides "empty" disagrees
		}
		return true
	})
	return ok
}

func vhEdgeCommands() [][]string {
	return [][]string{
		// failing variants: must change nothing
		{"SET", "fleet", "truck1"},
		{"SET", "fleet", "truck1", "POINT", "1"},
		{"SET", "fleet", "truck1", "POINT", "abc", "2"},
		{"SET", "newcol", "x", "POINT", "abc", "2"},
		{"SET", "newcol", "x", "FIELD", "f", "POINT", "1", "2"},
		{"SET", "newcol", "x", "EX", "abc", "POINT", "1", "2"},
		{"SET", "newcol", "x", "OBJECT", "{not json"},
		{"SET", "newcol", "x", "HASH", "???"},
		{"SET", "fleet", "truck1", "NX", "POINT", "9", "9"},
		{"SET", "fleet", "nosuch", "XX", "POINT", "9", "9"},
		{"SET", "newcol", "x", "XX", "POINT", "9", "9"},
		{"SET", "fleet", "truck1", "NX", "XX", "POINT", "9", "9"},
		{"FSET", "fleet", "nosuch", "speed", "1"},
		{"FSET", "nokey", "truck1", "speed", "1"},
		{"FSET", "fleet", "truck1", "speed", "abc"},
		{"FSET", "fleet", "truck1", "XX", "speed", "1"},
		{"FSET", "fleet", "truck1", "speed", "90"},
		// values that compare equal to what is stored although they are written differently: "no change" (reply 0)
		{"FSET", "fleet", "truck5", "speed", "0"},
		{"FSET", "fleet", "truck5", "speed", "-0"},
		{"FSET", "fleet", "truck5", "rate", "1.50"},
		{"FSET", "fleet", "truck5", "info.a", "1"},
		{"FSET", "fleet", "truck5", "nosuchfield", "0"},
		{"DEL", "fleet", "nosuch"},
		{"DEL", "nokey", "x"},
		{"PDEL", "fleet", "zz*"},
		{"PDEL", "nokey", "*"},
		{"DROP", "nokey"},
		{"RENAME", "nokey", "other"},
		{"RENAME", "fleet", "user"},
		{"RENAMENX", "fleet", "user"},
		{"EXPIRE", "fleet", "nosuch", "10"},
		{"EXPIRE", "nokey", "x", "10"},
		{"EXPIRE", "fleet", "truck1", "abc"},
		{"PERSIST", "fleet", "truck1"},
		{"PERSIST", "fleet", "nosuch"},
		{"JSET", "ghost", "id1", "", "value"},
		{"JSET", "ghost", "id1"},
		{"JSET", "fleet", "truck1", "", "value"},
		{"JSET", "user", "u1", "", "value"},
		{"JDEL", "user", "u1", "nosuch"},
		{"JDEL", "user", "nosuch", "name"},
		{"JDEL", "ghost", "u1", "name"},
		{"JDEL", "user", "u1", ""},
		{"GET", "fleet", "nosuch"},
		{"GET", "nokey", "x"},
		{"TTL", "fleet", "nosuch"},
		// succeeding variants: exercise "exists iff non-empty"
		{"DEL", "user", "u1"},
		{"PDEL", "user", "*"},
		{"DEL", "fleet", "truck1"},
		{"DROP", "user"},
		{"RENAME", "user", "people"},
		{"RENAMENX", "user", "people"},
		{"JSET", "ghost", "id1", "a.b", "5"},
		{"JDEL", "user", "u1", "name"},
		{"SET", "newcol", "x", "STRING", "v"},
		{"DEL", "empties", "e1"},
		{"PDEL", "empties", "*"},
		{"SET", "empties", "e1", "POINT", "1", "2"},
		{"FLUSHDB"},
	}
}

//verif:cfg b_commands=59_edge_cases_of_the_keyspace_commands b_dataset=fixed(points,string,deadline,fields,JSON_document) b_output=RESP|JSON ignorego=1
func VH_C01_errors_change_nothing() {
	s, _ := vhGateServer()
	// an object whose fields hold a zero written as 0.0, a number with a trailing zero and a JSON document
	vhDo(s, "SET", "fleet", "truck5", "FIELD", "speed", "0.0", "FIELD", "rate", "1.5", "FIELD", "info", `{"a":1}`, "POINT", "1", "1")
	table := vhEdgeCommands()
	c := table[vchoose(len(table))]
	outJSON := vnondetBool()
	before := vhSnapshot(s)
	client := &Client{}
	msg := &Message{Args: append([]string(nil), c...), ConnType: RESP, OutputType: RESP}
	if outJSON {
		msg.OutputType = JSON
	}
	aofBefore := len(s.aofbuf)
	err := s.handleInputCommand(client, msg)
	out := string(client.out)
	after := vhSnapshot(s)
	vobs("edge", strings.Join(c, " "), outJSON, before != after)
	vassert("C01.K3.no_transport_error", err == nil)
	isErr := vhIsErrorReply(out, outJSON)
	negative := out == ":0\r\n" || out == "$-1\r\n" || out == ":-2\r\n"
	if isErr || negative {
		vassert("C01.K3.error_or_negative_answer_changes_nothing", before == after && len(s.aofbuf) == aofBefore)
	}
	vassert("C01.K3.collection_exists_iff_nonempty", vhNoEmptyCollections(s))
}

// VH_C01_roundtrip: what SET / FSET / JSET wrote is what GET / FGET / JGET read back (binary-safe string values
// and ids; numeric, string and JSON field values).
//verif:cfg b_id_bytes=1..2_symbolic b_value_bytes=0..2_symbolic ignorego=1
func VH_C01_roundtrip() {
	s := vhServer()
	id := vnondetString(2)
	val := vnondetString(2)
	vassume(id != "")
	_, _, err := vhDo(s, "SET", "k", id, "FIELD", "f", "7.5", "STRING", val)
	vassert("C01.K3.set_ok", err == nil)
	r, _, err := vhDo(s, "GET", "k", id)
	vassert("C01.K3.get_reads_back_value", err == nil && r.String() == val)
	r2, _, _ := vhDo(s, "FGET", "k", id, "f")
	vassert("C01.K3.fget_reads_back_field", r2.String() == "7.5")
	r3, _, _ := vhDo(s, "EXISTS", "k", id)
	vassert("C01.K3.exists", r3.Integer() == 1)
	r4, _, _ := vhDo(s, "FEXISTS", "k", id, "f")
	r5, _, _ := vhDo(s, "FEXISTS", "k", id, "g")
	vassert("C01.K3.fexists", r4.Integer() == 1 && r5.Integer() == 0)
	r6, _, _ := vhDo(s, "TYPE", "k")
	vassert("C01.K3.type", r6.String() == "hash")
	// overwrite without FIELD keeps the previous fields; a zero field value removes the field
	vhDo(s, "SET", "k", id, "STRING", "other")
	r7, _, _ := vhDo(s, "FGET", "k", id, "f")
	vassert("C01.K3.fields_survive_overwrite", r7.String() == "7.5")
	vhDo(s, "FSET", "k", id, "f", "0")
	r8, _, _ := vhDo(s, "FEXISTS", "k", id, "f")
	vassert("C01.K3.zero_removes_field", r8.Integer() == 0)
	vhDo(s, "DEL", "k", id)
	r9, _, _ := vhDo(s, "TYPE", "k")
	vassert("C01.K3.last_delete_removes_collection", r9.String() == "none")
}

// VH_C01_json_paths: JSET / JGET / JDEL on nested paths and with RAW / STR: the document reads back exactly as the
// path operations prescribe, siblings are untouched, deleting the last member leaves an empty document and the
// object (still retrievable), and a failed path operation changes nothing.
//verif:cfg b_steps=9_fixed_path_operations_then_one_of_8_further_operations b_id=one_symbolic_byte ignorego=1
func VH_C01_json_paths() {
	s := vhServer()
	id := vnondetStringN(1)
	step := func(want string, args ...string) {
		_, _, err := vhDo(s, args...)
		vassert("C01.J.step_ok", err == nil)
		r, _, _ := vhDo(s, "GET", "docs", id)
		vassert("C01.J.document_after_step", r.String() == want)
	}
	step(`{"a":{"b":5}}`, "JSET", "docs", id, "a.b", "5")
	step(`{"a":{"b":5,"c":"x"}}`, "JSET", "docs", id, "a.c", "x")
	step(`{"a":{"b":5,"c":"x"},"n":"7"}`, "JSET", "docs", id, "n", "7", "STR")
	step(`{"a":{"b":5,"c":"x"},"n":"7","r":{"k":[1,2]}}`, "JSET", "docs", id, "r", `{"k":[1,2]}`, "RAW")
	step(`{"a":{"b":5,"c":"x"},"n":"7","r":{"k":[1,2]},"t":true}`, "JSET", "docs", id, "t", "true")
	g, _, _ := vhDo(s, "JGET", "docs", id, "r.k.1")
	vassert("C01.J.jget_nested", g.String() == "2")
	g2, _, _ := vhDo(s, "JGET", "docs", id, "a", "RAW")
	vassert("C01.J.jget_raw", g2.String() == `{"b":5,"c":"x"}`)
	g3, _, _ := vhDo(s, "JGET", "docs", id, "n")
	vassert("C01.J.jget_string_member", g3.String() == "7")
	step(`{"a":{"c":"x"},"n":"7","r":{"k":[1,2]},"t":true}`, "JDEL", "docs", id, "a.b")
	before := vhSnapshot(s)
	r, _, err := vhDo(s, "JDEL", "docs", id, "a.zz")
	vassert("C01.J.jdel_missing_path_is_a_negative_answer", err == nil && r.Integer() == 0 && vhSnapshot(s) == before)
	switch vchoose(8) {
	case 0:
		step(`{"a":{"c":"x"},"n":"7","r":{"k":[1,2]}}`, "JDEL", "docs", id, "t")
	case 1:
		step(`{"a":{"c":"x"},"n":"7","r":{"k":[1]},"t":true}`, "JDEL", "docs", id, "r.k.1")
	case 2:
		step(`{"a":{"c":"x"},"n":8,"r":{"k":[1,2]},"t":true}`, "JSET", "docs", id, "n", "8")
	case 3:
		step(`{"a":"flat","n":"7","r":{"k":[1,2]},"t":true}`, "JSET", "docs", id, "a", "flat")
	case 4:
		step(`{"a":{"c":"x"},"n":"7","r":{"k":[1,2]},"t":true,"z":null}`, "JSET", "docs", id, "z", "null")
	case 5:
		step(`{"a":{"c":"x","d":{"e":1.5}},"n":"7","r":{"k":[1,2]},"t":true}`, "JSET", "docs", id, "a.d.e", "1.5")
	case 6:
		_, _, e := vhDo(s, "JSET", "docs", id, "", "v")
		vassert("C01.J.empty_path_is_an_error_and_changes_nothing", e != nil && vhSnapshot(s) == before)
	default:
		// fields and the collection are untouched by document edits; a second id is independent
		vhDo(s, "FSET", "docs", id, "f", "3")
		step(`{"a":{"c":"x"},"n":"7","r":{"k":[1,2]},"t":true,"u":1}`, "JSET", "docs", id, "u", "1")
		f, _, _ := vhDo(s, "FGET", "docs", id, "f")
		vassert("C01.J.fields_survive_document_edits", f.String() == "3")
	}
	ex, _, _ := vhDo(s, "EXISTS", "docs", id)
	vassert("C01.J.object_still_there", ex.Integer() == 1)
	vobs("jsonpaths", id)
}
