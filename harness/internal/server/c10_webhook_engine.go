package server

import "github.com/tidwall/tile38/internal/endpoint"

func vhEndpoints(n int) []string {
	return []string{"http://ep1/hook", "http://ep2/hook"}[:n]
}
func vhEpManager(s *Server) *endpoint.Manager { return new(endpoint.Manager) }
func vhEpShutdown()                            {}

// vhFreeSchedule: natively the threads of the harness run freely from here on (no-op in the engine)
func vhFreeSchedule() {}
