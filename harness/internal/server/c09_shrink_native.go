package server

import "os"

// Native replay only: aofshrink.go is compiled from a copy in which the four package-level os calls are
// routed through these wrappers (see native_patch.json), so that the replay can stop the rewrite at the
// same directory operation as the engine's crash index. The real os functions do the work.

func vhOsCreate(name string) (*os.File, error) {
	if !vhOsTick("create " + vhBase(name)) {
		return nil, os.ErrClosed
	}
	return os.Create(name)
}

func vhOsOpenFile(name string, flag int, perm os.FileMode) (*os.File, error) {
	if !vhOsTick("open " + vhBase(name)) {
		return nil, os.ErrClosed
	}
	return os.OpenFile(name, flag, perm)
}

func vhOsRename(from, to string) error {
	if !vhOsTick("rename " + vhBase(from) + " " + vhBase(to)) {
		return os.ErrClosed
	}
	return os.Rename(from, to)
}

func vhOsRemove(name string) error {
	if !vhOsTick("remove " + vhBase(name)) {
		return os.ErrClosed
	}
	return os.Remove(name)
}
