package server

import (
	"bytes"
	"crypto/md5"
	"fmt"
	"net"
	"os"
	"strconv"

	"github.com/tidwall/resp"
)

// Native replay of C06-K1: real logs of the witness lengths, a stub leader that answers AOFMD5 over TCP from
// its log, a real follower file and the real followCheckSome / matchChecksums / md5 / loadAOF.

var vhLeaderLog []byte
var vhLeaderLn net.Listener

// vhLogCmd is the i-th 64-byte command of a generated log; tag distinguishes the leader's from the other log.
func vhLogCmd(i int, tag byte) []byte {
	id := fmt.Sprintf("%08d", i)
	val := append([]byte{tag}, []byte(fmt.Sprintf("%010d", i))...)
	if tag != 'L' {
		for k := 1; k < len(val); k++ {
			val[k] = 'a' + (val[k] - '0') // every value byte differs from the leader's
		}
	}
	b := vhEncode("SET", "k", id, "STRING", string(val))
	if len(b) != vhCmdLen {
		panic("generated command is not 64 bytes")
	}
	return b
}

func vhGenLog(n int64, tag byte) []byte {
	var b bytes.Buffer
	for i := 0; int64(b.Len()) < n; i++ {
		b.Write(vhLogCmd(i, tag))
	}
	return b.Bytes()[:n]
}

func vhFollower(F, L, P, Q int64) *Server {
	vhLeaderLog = vhGenLog(L, 'L')
	// follower: the leader's first P bytes, then a log whose value bytes differ
	alt := vhGenLog(F, 'F')
	flog := append([]byte(nil), alt...)
	copy(flog, vhLeaderLog[:P])
	if Q < F && Q < L {
		// the logs agree again from Q on (as far as both reach)
		copy(flog[Q:], vhLeaderLog[Q:])
	}
	if P < F && P < L && flog[P] == vhLeaderLog[P] {
		panic("harness: byte P does not differ")
	}
	ln, err := net.Listen("tcp", "127.0.0.1:0")
	if err != nil {
		panic(err)
	}
	vhLeaderLn = ln
	vh06.addr = ln.Addr().String()
	go func() {
		for {
			c, err := ln.Accept()
			if err != nil {
				return
			}
			go vhServeLeader(c)
		}
	}()
	s := vhServer()
	s.mu = &vhLock{s: s, noSnap: true}
	f, err := os.CreateTemp("", "verif-follower-aof-*")
	if err != nil {
		panic(err)
	}
	f.Write(flog)
	f.Seek(0, 0)
	s.aof = f
	if err := s.loadAOF(); err != nil {
		panic(err)
	}
	return s
}

func vhServeLeader(c net.Conn) {
	defer c.Close()
	rd := resp.NewReader(c)
	wr := resp.NewWriter(c)
	for {
		v, _, _, err := rd.ReadMultiBulk()
		if err != nil {
			return
		}
		a := v.Array()
		if len(a) == 0 {
			return
		}
		switch a[0].String() {
		case "aofmd5":
			pos, _ := strconv.ParseInt(a[1].String(), 10, 64)
			size, _ := strconv.ParseInt(a[2].String(), 10, 64)
			if pos+size > int64(len(vhLeaderLog)) {
				wr.WriteError(fmt.Errorf("EOF"))
			} else {
				wr.WriteString(fmt.Sprintf("%x", md5.Sum(vhLeaderLog[pos:pos+size])))
			}
		case "quit":
			return
		default:
			wr.WriteError(fmt.Errorf("unsupported"))
		}
	}
}

func vhFollowerDone(s *Server) {
	vhLeaderLn.Close()
	name := s.aof.Name()
	s.aof.Close()
	os.Remove(name)
}

func vhFollowerFile(s *Server) []byte {
	b, _ := os.ReadFile(s.aof.Name())
	return b
}

func vhKeptIsLeaderPrefix(s *Server, pos int64) bool {
	b := vhFollowerFile(s)
	if pos > int64(len(vhLeaderLog)) || pos > int64(len(b)) {
		return false
	}
	return bytes.Equal(b[:pos], vhLeaderLog[:pos])
}

func vhFollowerFileLen(s *Server) int64 { return int64(len(vhFollowerFile(s))) }

func vhMemoryIsReplayOf(s *Server, pos int64) bool {
	b := vhFollowerFile(s)
	if pos > int64(len(b)) {
		return false
	}
	s2 := vhServer()
	f, err := os.CreateTemp("", "verif-follower-ref-*")
	if err != nil {
		panic(err)
	}
	defer os.Remove(f.Name())
	f.Write(b[:pos])
	f.Seek(0, 0)
	s2.aof = f
	if err := s2.loadAOF(); err != nil {
		return false
	}
	f.Close()
	return vhSnapshot(s2) == vhSnapshot(s)
}
