package collection

import (
	"github.com/tidwall/geojson"
	"github.com/tidwall/geojson/geometry"
	"github.com/tidwall/tile38/internal/field"
	"github.com/tidwall/tile38/internal/object"
)

// C19 / C14-K2: after every short history of Set / overwrite (any kind change) / Delete over the REAL
// containers (btree.Map, rtree, value and expiry B-trees), the counters, bounds and all four access
// paths agree with the objects that Get returns.

var vhIDs = [3]string{"a", "b", "c"}

// bounds (quick -> thorough): ids 2 -> 3, point table 2 -> 3, rectangles 1 -> 9, field none -> optional
func vhNIDs() int {
	if vthorough() {
		return 3
	}
	return 2
}
// the third string is byte for byte what the first point prints as
var vhStrs = [3]string{"x", "y", `{"type":"Point","coordinates":[10,20]}`}
var vhDeadlines = [3]int64{0, 5000000000, 9000000000}
var vhPts = [3]geometry.Point{{X: 10, Y: 20}, {X: -30, Y: 5}, {X: 10, Y: -45}}

type vhDesc struct {
	present bool
	obj     *object.Object
}

// vhObject draws an object descriptor: kind (string / point / rectangle / empty spatial), deadline, one field or none.
func vhObject(id string, cur *object.Object) *object.Object {
	var g geojson.Object
	switch vchoose(5) {
	case 0:
		if vthorough() && vnondetBool() {
			g = String(vnondetStringN(1))
		} else {
			g = String(vhStrs[vchoose(3)])
		}
	case 4:
		// what FSET / EXPIRE / PERSIST do: a new object around the geometry (or string) of the current one
		if cur == nil {
			vassume(false)
		}
		g = cur.Geo()
	case 1:
		g = geojson.NewSimplePoint(vhPts[vchoose(vhNIDs())])
	case 2:
		a, b := vhPts[0], vhPts[2]
		if vthorough() {
			a, b = vhPts[vchoose(3)], vhPts[vchoose(3)]
		}
		r := geometry.Rect{Min: geometry.Point{X: min(a.X, b.X), Y: min(a.Y, b.Y)}, Max: geometry.Point{X: max(a.X, b.X), Y: max(a.Y, b.Y)}}
		g = geojson.NewRect(r)
	default:
		g = geojson.NewMultiPoint(nil) // spatial but empty: counted, never indexed
	}
	// deadline: none, or one of two instants (equal deadlines on different ids exercise the id tie-break)
	ex := vhDeadlines[vchoose(3)]
	// fields: none, one number, or a number and a string (the weight of the field list counts in in_memory_size)
	var fl field.List
	nf := 0
	if vthorough() || (cur != nil && g == cur.Geo()) {
		nf = vchoose(3)
	}
	if nf >= 1 {
		fl = fl.Set(field.Make("f", "1"))
	}
	if nf == 2 {
		fl = fl.Set(field.Make("name", "a longer string value"))
	}
	return object.New(id, g, ex, fl)
}

func vhCheck(c *Collection, st *[3]vhDesc) {
	n, nstr, npts, w := 0, 0, 0, 0
	nsp, nex := 0, 0
	first := true
	var minX, minY, maxX, maxY float64
	for i := range st {
		got := c.Get(vhIDs[i])
		if !st[i].present {
			vassert("C19.get_absent", got == nil)
			continue
		}
		o := st[i].obj
		vassert("C19.get_present", got == o)
		n++
		if !o.IsSpatial() {
			nstr++
		} else if !o.Geo().Empty() {
			nsp++
			r := o.Rect()
			if first {
				minX, minY, maxX, maxY = r.Min.X, r.Min.Y, r.Max.X, r.Max.Y
				first = false
			} else {
				minX, minY, maxX, maxY = min(minX, r.Min.X), min(minY, r.Min.Y), max(maxX, r.Max.X), max(maxY, r.Max.Y)
			}
		}
		if o.Expires() != 0 {
			nex++
		}
		npts += o.Geo().NumPoints()
		w += o.Weight()
	}
	vassert("C19.count", c.Count() == n)
	vassert("C19.string_count", c.StringCount() == nstr)
	vassert("C19.point_count", c.PointCount() == npts)
	vassert("C19.weight", c.TotalWeight() == w)
	a, b, cc, d := c.Bounds()
	vassert("C19.bounds", a == minX && b == minY && cc == maxX && d == maxY)

	// id scan: exactly the present objects, ascending
	k, ok, prev := 0, true, ""
	c.Scan(false, nil, nil, func(o *object.Object) bool {
		if k > 0 && !(prev < o.ID()) {
			ok = false
		}
		prev = o.ID()
		if c.Get(o.ID()) != o {
			ok = false
		}
		k++
		return true
	})
	vassert("C19.scan_exact", ok && k == n)

	// value search: exactly the non-spatial objects in (value,id) order
	k, ok = 0, true
	var last *object.Object
	c.SearchValues(false, nil, nil, func(o *object.Object) bool {
		if last != nil && !byValue(last, o) {
			ok = false
		}
		last = o
		if c.Get(o.ID()) != o || o.IsSpatial() {
			ok = false
		}
		k++
		return true
	})
	vassert("C19.values_exact", ok && k == nstr)

	// expiry index: exactly the current objects with a deadline, in (deadline,id) order
	k, ok, last = 0, true, nil
	c.ScanExpires(func(o *object.Object) bool {
		if last != nil && !byExpires(last, o) {
			ok = false
		}
		last = o
		if c.Get(o.ID()) != o || o.Expires() == 0 {
			ok = false
		}
		k++
		return true
	})
	vassert("C19.expires_exact", ok && k == nex)

	// spatial index: a whole-world search returns exactly the current non-empty spatial objects
	k, ok = 0, true
	world := geojson.NewRect(geometry.Rect{Min: geometry.Point{X: -180, Y: -90}, Max: geometry.Point{X: 180, Y: 90}})
	c.Intersects(world, 0, nil, nil, func(o *object.Object) bool {
		if c.Get(o.ID()) != o || !o.IsSpatial() {
			ok = false
		}
		k++
		return true
	})
	vassert("C19.spatial_exact", ok && k == nsp)
}

//verif:cfg quick.b_ops=3 thorough.b_ops=4 quick.b_ids=2 thorough.b_ids=3 b_kinds=string,point,rect,empty-spatial,same_geometry_as_the_current_object(FSET/EXPIRE/PERSIST) b_deadline=none|5s|9s b_fields=0..2_on_a_re-set(quick),_on_every_object(thorough) b_string_values=3_concrete(one_equal_to_the_text_of_a_point) thorough.b_string_values=+1_symbolic_byte
func VH_C19_history() {
	ops := 3
	if vthorough() {
		ops = 4
	}
	c := New()
	var st [3]vhDesc
	for k := 0; k < ops; k++ {
		i := vchoose(vhNIDs())
		if vnondetBool() {
			o := vhObject(vhIDs[i], st[i].obj)
			prev := c.Set(o)
			if st[i].present {
				vassert("C19.set_returns_previous", prev == st[i].obj)
			} else {
				vassert("C19.set_returns_nil_for_new", prev == nil)
			}
			st[i] = vhDesc{true, o}
		} else {
			prev := c.Delete(vhIDs[i])
			if st[i].present {
				vassert("C19.delete_returns_object", prev == st[i].obj)
			} else {
				vassert("C19.delete_absent_is_noop", prev == nil)
			}
			st[i] = vhDesc{}
		}
		vhCheck(c, &st)
	}
	vobs("final", c.Count(), c.StringCount(), c.PointCount(), c.TotalWeight())
}

// VH_C19_same_footprint: geometries of different size and kind over one bounding rectangle replace one another
// under one id (a rectangle, a three-point line along it, a polygon around it, a point, two coincident points, an
// empty geometry, a string): after every replacement and after the final delete the counters (objects, strings,
// points, weight), the bounds and all access paths agree with the objects Get returns.
//verif:cfg b_kinds=8_(point,_MultiPoint_of_two_coincident_points,_rectangle,_3-point_LineString_with_the_rectangle's_bounding_box,_Polygon_with_it,_empty_geometry,_two_strings_of_different_length) b_history=3_replacements_of_one_id_next_to_a_second_object,_then_delete b_fields=none|one
func VH_C19_same_footprint() {
	c := New()
	var st [3]vhDesc
	other := object.New("b", geojson.NewSimplePoint(geometry.Point{X: -30, Y: 5}), 0, field.List{})
	c.Set(other)
	st[1] = vhDesc{true, other}
	lo, hi := geometry.Point{X: 10, Y: -45}, geometry.Point{X: 20, Y: 20}
	mk := func(k int) geojson.Object {
		switch k {
		case 0:
			return geojson.NewSimplePoint(hi)
		case 1:
			return geojson.NewMultiPoint([]geometry.Point{hi, hi})
		case 2:
			return geojson.NewRect(geometry.Rect{Min: lo, Max: hi})
		case 3:
			return geojson.NewLineString(geometry.NewLine([]geometry.Point{lo, {X: 15, Y: 0}, hi}, nil))
		case 4:
			return geojson.NewPolygon(geometry.NewPoly([]geometry.Point{lo, {X: hi.X, Y: lo.Y}, hi, {X: lo.X, Y: hi.Y}, lo}, nil, nil))
		case 5:
			return geojson.NewMultiPoint(nil)
		case 6:
			return String("v")
		}
		return String("a much longer value")
	}
	for step := 0; step < 3; step++ {
		var fl field.List
		if vnondetBool() {
			fl = fl.Set(field.Make("f", "1"))
		}
		o := object.New("a", mk(vchoose(8)), 0, fl)
		prev := c.Set(o)
		if st[0].present {
			vassert("C19.set_returns_previous", prev == st[0].obj)
		}
		st[0] = vhDesc{true, o}
		vhCheck(c, &st)
	}
	c.Delete("a")
	st[0] = vhDesc{}
	vhCheck(c, &st)
	vobs("footprint", c.Count(), c.PointCount(), c.TotalWeight())
}
