package collection

import (
	"github.com/tidwall/geojson"
	"github.com/tidwall/geojson/geometry"
	"github.com/tidwall/tile38/internal/field"
	"github.com/tidwall/tile38/internal/object"
)

// C02: the spatial index can only lose results (the exact predicate runs on every candidate), and it
// loses one iff an object satisfying the predicate is not visited. Two kernels:
//  K1  the outward rounding float64 -> float32 really is outward (real rtreeValueDown/Up, cvc5);
//  K2  with K1's contract in place of the two functions, the real indexInsert / geoSearch / rtree
//      visit every object whose exact predicate holds (symbolic coordinates, comparisons only).

const vhMaxF32 = 3.4028234663852886e+38
const vhMinNormF32 = 1.1754943508222875e-38

func vhInF32Range(d float64) bool {
	return d == 0 || (d >= vhMinNormF32 && d <= vhMaxF32) || (d <= -vhMinNormF32 && d >= -vhMaxF32)
}

// K1 lemmas over float32's normal range (which contains every geographic coordinate).
//verif:cfg solver=cvc5 timeout=900000 verdict=900000 maxwall=1700 b_domain=zero_or_float32_normal_range
func VH_C02_round_down() {
	d := vnondetFloat64()
	vassume(vhInF32Range(d))
	f := rtreeValueDown(d)
	vassert("C02.K1.down_is_not_above", float64(f) <= d)
}

//verif:cfg solver=cvc5 timeout=900000 verdict=900000 maxwall=1700 b_domain=zero_or_float32_normal_range
func VH_C02_round_up() {
	d := vnondetFloat64()
	vassume(vhInF32Range(d))
	f := rtreeValueUp(d)
	vassert("C02.K1.up_is_not_below", float64(f) >= d)
}

// K2: the K1 contract stands in for the two rounding functions.
//verif:replace[k1contract] github.com/tidwall/tile38/internal/collection.rtreeValueDown => vmDown
//verif:replace[k1contract] github.com/tidwall/tile38/internal/collection.rtreeValueUp => vmUp

func vmDown(d float64) float32 {
	f := vuf32("down", d)
	vassume(float64(f) <= d)
	return f
}

func vmUp(d float64) float32 {
	f := vuf32("up", d)
	vassume(float64(f) >= d)
	return f
}

// K1 wiring: with the contract in place of the two functions, rtreeRect/rtreeItem put Down on the
// minimum and Up on the maximum of the right axis (a swapped call or axis is a counterexample).
//verif:cfg use=k1contract b_rect=any_float64_rect_in_K1_domain
func VH_C02_rect_wiring() {
	a, b, c, d := vnondetFloat64(), vnondetFloat64(), vnondetFloat64(), vnondetFloat64()
	vassume(a <= c && b <= d)
	vassume(vhInF32Range(a) && vhInF32Range(b) && vhInF32Range(c) && vhInF32Range(d)) // K1's domain
	min, max := rtreeRect(geometry.Rect{Min: geometry.Point{X: a, Y: b}, Max: geometry.Point{X: c, Y: d}})
	vassert("C02.K1.rect_min_x_outward", float64(min[0]) <= a)
	vassert("C02.K1.rect_min_y_outward", float64(min[1]) <= b)
	vassert("C02.K1.rect_max_x_outward", float64(max[0]) >= c)
	vassert("C02.K1.rect_max_y_outward", float64(max[1]) >= d)
}

// K2 runs on coordinates that float32 represents exactly (there Down(d) = Up(d) = float32(d), so the
// real rounding functions run unmodified and every comparison is a float32 comparison); K1 covers the rest.
func vhCoord() float64 {
	f := vnondetFloat32()
	vassume(f >= -180 && f <= 180)
	return float64(f)
}

func vhRect() geometry.Rect {
	a, b, c, d := vhCoord(), vhCoord(), vhCoord(), vhCoord()
	vassume(a <= c && b <= d)
	return geometry.Rect{Min: geometry.Point{X: a, Y: b}, Max: geometry.Point{X: c, Y: d}}
}

//verif:cfg b_objects=2(point,rectangle) b_query=rectangle b_coordinates=any_float32-representable_value_in_[-180,180] b_ops=optional_empty_predecessor,insert,optional_move,search maxwall=1200
func VH_C02_index_filter() {
	c := New()
	pt := object.New("p", geojson.NewSimplePoint(geometry.Point{X: vhCoord(), Y: vhCoord()}), 0, field.List{})
	rc := object.New("r", geojson.NewRect(vhRect()), 0, field.List{})
	if vnondetBool() {
		// the id first holds a spatial object with an empty geometry (counted, never indexed)
		c.Set(object.New("p", geojson.NewMultiPoint(nil), 0, field.List{}))
		vreach("was-empty")
	}
	c.Set(pt)
	c.Set(rc)
	if vnondetBool() {
		// a move: the index entry of the old position must not survive, the new one must be present
		pt = object.New("p", geojson.NewSimplePoint(geometry.Point{X: vhCoord(), Y: vhCoord()}), 0, field.List{})
		c.Set(pt)
		vreach("moved")
	}
	q := geojson.NewRect(vhRect())
	within := vnondetBool()
	var gotP, gotR int
	iter := func(o *object.Object) bool {
		if o == pt {
			gotP++
		} else if o == rc {
			gotR++
		} else {
			vassert("C02.K2.only_current_objects", false)
		}
		return true
	}
	var wantP, wantR bool
	if within {
		c.Within(q, 0, nil, nil, iter)
		wantP, wantR = pt.Geo().Within(q), rc.Geo().Within(q)
	} else {
		c.Intersects(q, 0, nil, nil, iter)
		wantP, wantR = pt.Geo().Intersects(q), rc.Geo().Intersects(q)
	}
	vassert("C02.K2.point_found_iff_predicate", (gotP == 1) == wantP && gotP <= 1)
	vassert("C02.K2.rect_found_iff_predicate", (gotR == 1) == wantR && gotR <= 1)
	vobs("found", within, gotP, gotR)
}

// VH_C02_history: histories of one rectangle object: insert, an optional FSET/EXPIRE/PERSIST-style re-set (a new
// object around the SAME geometry), then nothing / delete / move; a second rectangle keeps the tree populated.
// The query visits exactly the current objects whose exact predicate holds: nothing deleted or moved away is
// still found, nothing current is lost.
//verif:cfg b_objects=2_rectangles(one_symbolic,one_fixed) b_history=insert,optional_re-set_with_the_same_geometry,then_none|delete|move quick.b_move_target=fixed_rectangle thorough.b_move_target=symbolic_rectangle b_query=rectangle b_coordinates=any_float32-representable_value_in_[-180,180] maxwall=1200
func VH_C02_history() {
	c := New()
	other := object.New("o", geojson.NewRect(geometry.Rect{Min: geometry.Point{X: 100, Y: 50}, Max: geometry.Point{X: 110, Y: 60}}), 0, field.List{})
	c.Set(other)
	cur := object.New("r", geojson.NewRect(vhRect()), 0, field.List{})
	c.Set(cur)
	for k := vchoose(2); k > 0; k-- {
		cur = object.New("r", cur.Geo(), int64(k)*5000000000, field.List{}.Set(field.Make("f", "1")))
		c.Set(cur)
		vreach("re-set")
	}
	switch vchoose(3) {
	case 1:
		prev := c.Delete("r")
		vassert("C02.K2.delete_returns_current", prev == cur)
		cur = nil
		vreach("deleted")
	case 2:
		to := geometry.Rect{Min: geometry.Point{X: -20, Y: -10}, Max: geometry.Point{X: -10, Y: 10}}
		if vthorough() {
			to = vhRect()
		}
		cur = object.New("r", geojson.NewRect(to), 0, field.List{})
		c.Set(cur)
		vreach("moved")
	}
	q := geojson.NewRect(vhRect())
	within := vnondetBool()
	var gotR, gotO int
	iter := func(o *object.Object) bool {
		if cur != nil && o == cur {
			gotR++
		} else if o == other {
			gotO++
		} else {
			vassert("C02.K2.history_only_current_objects", false)
		}
		return true
	}
	var wantR, wantO bool
	if within {
		c.Within(q, 0, nil, nil, iter)
		wantR, wantO = cur != nil && cur.Geo().Within(q), other.Geo().Within(q)
	} else {
		c.Intersects(q, 0, nil, nil, iter)
		wantR, wantO = cur != nil && cur.Geo().Intersects(q), other.Geo().Intersects(q)
	}
	vassert("C02.K2.history_found_iff_predicate", (gotR == 1) == wantR && gotR <= 1 && (gotO == 1) == wantO && gotO <= 1)
}

// VH_C02_sparse: SPARSE only thins results: every object a sparse WITHIN / INTERSECTS hands out satisfies the
// exact predicate, none is handed out twice, there are at most 4^sparse of them, and when some object satisfies
// the predicate at least one is handed out. Two points with symbolic coordinates, a fixed query rectangle.
//verif:cfg b_objects=2_points(symbolic_float32-representable_coordinates_in_[-20,20]) b_query=fixed_rectangle quick.b_sparse=1 thorough.b_sparse=1..2 maxwall=1200
func VH_C02_sparse() {
	c := New()
	coord := func() float64 {
		f := vnondetFloat32()
		vassume(f >= -20 && f <= 20)
		return float64(f)
	}
	a := object.New("a", geojson.NewSimplePoint(geometry.Point{X: coord(), Y: coord()}), 0, field.List{})
	b := object.New("b", geojson.NewSimplePoint(geometry.Point{X: coord(), Y: coord()}), 0, field.List{})
	c.Set(a)
	c.Set(b)
	q := geojson.NewRect(geometry.Rect{Min: geometry.Point{X: -4, Y: -2}, Max: geometry.Point{X: 12, Y: 6}})
	sparse := uint8(1)
	if vthorough() {
		sparse = uint8(1 + vchoose(2))
	}
	within := vnondetBool()
	var gotA, gotB int
	iter := func(o *object.Object) bool {
		if o == a {
			gotA++
		} else if o == b {
			gotB++
		}
		return true
	}
	var wantA, wantB bool
	if within {
		c.Within(q, sparse, nil, nil, iter)
		wantA, wantB = a.Geo().Within(q), b.Geo().Within(q)
	} else {
		c.Intersects(q, sparse, nil, nil, iter)
		wantA, wantB = a.Geo().Intersects(q), b.Geo().Intersects(q)
	}
	vassert("C02.K3.sparse_never_adds_a_non_matching_object", (gotA == 0 || wantA) && (gotB == 0 || wantB))
	vassert("C02.K3.sparse_no_duplicates", gotA <= 1 && gotB <= 1)
	if wantA || wantB {
		vassert("C02.K3.sparse_keeps_at_least_one_match", gotA+gotB >= 1)
	}
	vobs("sparse", int(sparse), within, gotA, gotB)
}

// VH_C02_window_wiring: K2 over float64 coordinates for one point: with K1's contract in place of the two rounding
// functions (Down(d) <= d <= Up(d), nothing else known about them), the real Set / geoSearch / rtree visit the point
// whenever the exact predicate holds - i.e. the search WINDOW, like the stored boxes, is rounded outward.
//verif:cfg use=k1contract solver=cvc5 timeout=120000 verdict=300000 maxwall=1700 b_objects=1_point b_coordinates=any_float64_in_K1_domain_within_[-180,180] b_query=rectangle
func VH_C02_window_wiring() {
	c := New()
	co := func() float64 {
		d := vnondetFloat64()
		vassume(d >= -180 && d <= 180 && vhInF32Range(d))
		return d
	}
	px, py := co(), co()
	pt := object.New("p", geojson.NewSimplePoint(geometry.Point{X: px, Y: py}), 0, field.List{})
	c.Set(pt)
	a, b, cc, d := co(), co(), co(), co()
	vassume(a <= cc && b <= d)
	q := geojson.NewRect(geometry.Rect{Min: geometry.Point{X: a, Y: b}, Max: geometry.Point{X: cc, Y: d}})
	got := 0
	c.Intersects(q, 0, nil, nil, func(o *object.Object) bool {
		if o == pt {
			got++
		}
		return true
	})
	inside := px >= a && px <= cc && py >= b && py <= d
	vassert("C02.K2.window_is_rounded_outward_too", vimplies(inside, got == 1))
	vassert("C02.K2.window_never_invents", vimplies(got == 1, inside))
}

// VH_REFINE_C02_window: the concretisation stage of VH_C02_window_wiring. That harness reasons with K1's contract in
// place of the two rounding functions, so its counterexamples assign values to uninterpreted functions and cannot
// be replayed. When it reports one, the driver runs this twin - the same scenario with the REAL rounding functions -
// and asks the solver for a concrete float64 input (a satisfiable query, fast); only that input, replayed natively,
// is reported. It is not part of the ordinary pass (on a correct tree the query is the hard direction, which
// K1 + window_wiring decide compositionally).
//verif:cfg solver=z3 stopfirst=1 timeout=60000 verdict=120000 maxwall=400 maxpaths=200000 b_objects=1_point b_coordinates=x:any_float64_in_[0,180]_(K1_domain),y:fixed b_query=rectangle b_role=concretisation_of_contract_level_counterexamples
func VH_REFINE_C02_window() {
	c := New()
	co := func() float64 {
		d := vnondetFloat64()
		vassume(d >= 0 && d <= 180 && vhInF32Range(d))
		return d
	}
	px, py := co(), 5.0
	pt := object.New("p", geojson.NewSimplePoint(geometry.Point{X: px, Y: py}), 0, field.List{})
	c.Set(pt)
	a, b, cc, d := co(), 0.0, co(), 10.0
	vassume(a <= cc)
	q := geojson.NewRect(geometry.Rect{Min: geometry.Point{X: a, Y: b}, Max: geometry.Point{X: cc, Y: d}})
	got := 0
	c.Intersects(q, 0, nil, nil, func(o *object.Object) bool {
		if o == pt {
			got++
		}
		return true
	})
	inside := px >= a && px <= cc
	vassert("C02.K2.window_is_rounded_outward_too", vimplies(inside, got == 1))
	vassert("C02.K2.window_never_invents", vimplies(got == 1, inside))
	vobs("window", px, a, cc, got)
}

// VH_REFINE_C02_rect: concretisation twin of VH_C02_rect_wiring (real rounding functions, satisfiable direction only).
//verif:cfg solver=z3 stopfirst=1 timeout=60000 verdict=120000 maxwall=300 b_rect=any_float64_rect_in_[0,180] b_role=concretisation_of_contract_level_counterexamples
func VH_REFINE_C02_rect() {
	co := func() float64 {
		d := vnondetFloat64()
		vassume(d >= 0 && d <= 180 && vhInF32Range(d))
		return d
	}
	a, b, c, d := co(), co(), co(), co()
	vassume(a <= c && b <= d)
	min, max := rtreeRect(geometry.Rect{Min: geometry.Point{X: a, Y: b}, Max: geometry.Point{X: c, Y: d}})
	vassert("C02.K1.rect_min_x_outward", float64(min[0]) <= a)
	vassert("C02.K1.rect_min_y_outward", float64(min[1]) <= b)
	vassert("C02.K1.rect_max_x_outward", float64(max[0]) >= c)
	vassert("C02.K1.rect_max_y_outward", float64(max[1]) >= d)
	vobs("rect", a, b, c, d)
}
